"""Must-fail corpus: the seeded property-breaking changes under /verif/seeded/<ID>/<k>/patch.diff
(written by independent sub-agents, each confirmed to compile, to pass the existing tests and to
break the property with a demonstration). Each is applied to a scratch git worktree of /repo
(outside /repo and /verif), the property's quick check is run there, and the worktree is removed.
A change is 'detected' when the check exits 1 with a VIOLATION line; 'undecided' when it exits 2;
'missed' when it exits 0."""
import json
import os
import subprocess
import sys

VERIF = os.path.dirname(os.path.abspath(__file__))
SCRATCH = os.environ.get("VERIF_SCRATCH", "/var/tmp/verif-scratch")


def sh(cmd, **kw):
    return subprocess.run(cmd, shell=True, capture_output=True, text=True, **kw)


def run_one(pid, k, extra_props=()):
    src = os.path.join(VERIF, "seeded", pid, k, "patch.diff")
    wt = os.path.join(SCRATCH, "selftest-%s-%s-%d" % (pid, k, os.getpid()))
    os.makedirs(SCRATCH, exist_ok=True)
    sh("git -C /repo worktree remove --force %s" % wt)
    r = sh("git -C /repo worktree add --detach %s HEAD" % wt)
    try:
        # uncommitted contract edits in /repo are part of the tree under test
        sh("cd /repo && git diff | git -C %s apply" % wt)
        a = sh("git -C %s apply %s" % (wt, src))
        if a.returncode != 0:
            return dict(variant=k, outcome="patch-does-not-apply", detail=a.stderr[-200:])
        outcomes = {}
        for p in (pid,) + tuple(extra_props):
            env = dict(os.environ, VERIF_REPO=wt, VERIF_NOCACHE="1", VERIF_NO_SELFTEST="1", VERIF_EVIDENCE_DIR=os.path.join(wt, ".verif-evidence"))
            c = subprocess.run([os.path.join(VERIF, "check"), p, "--tier", "quick", "--workdir", os.path.join(wt, ".verif-work")],
                               capture_output=True, text=True, env=env, cwd=VERIF)
            viol = [l for l in c.stdout.split("\n") if l.startswith("VIOLATION")]
            outcomes[p] = dict(exit=c.returncode, violations=len(viol),
                               obligations=[v.split("replay=")[1].split("/")[-1].replace(".json", "")[:80] for v in viol][:4])
        det = "detected" if outcomes[pid]["exit"] == 1 else ("undecided" if outcomes[pid]["exit"] == 2 else "missed")
        return dict(variant=k, outcome=det, checks=outcomes)
    finally:
        sh("git -C /repo worktree remove --force %s" % wt)


def run_seeded(pid):
    d = os.path.join(VERIF, "seeded", pid)
    if not os.path.isdir(d):
        return dict(total=0, detected=0, results=[])
    res = [run_one(pid, k) for k in sorted(os.listdir(d)) if os.path.exists(os.path.join(d, k, "patch.diff"))]
    return dict(total=len(res), detected=sum(1 for r in res if r["outcome"] == "detected"),
                undecided=sum(1 for r in res if r["outcome"] == "undecided"),
                missed=sum(1 for r in res if r["outcome"] == "missed"), results=res)


def main(args):
    props = args or sorted(os.listdir(os.path.join(VERIF, "seeded")))
    allr = {}
    for p in props:
        allr[p] = run_seeded(p)
        r = allr[p]
        print("%s: %d seeded changes, %d detected, %d undecided, %d missed" % (p, r["total"], r["detected"], r.get("undecided", 0), r.get("missed", 0)))
        for x in r["results"]:
            print("   %s/%s: %s %s" % (p, x["variant"], x["outcome"], (x.get("checks") or {}).get(p, {}).get("obligations", "")))
    json.dump(allr, open(os.path.join(VERIF, "selftest_results.json"), "w"), indent=1)
    return 0


if __name__ == "__main__":
    sys.exit(main(sys.argv[1:]))
