#!/bin/sh
# builds the VC generator offline; everything else is python3 + solvers already installed
set -e
cd "$(dirname "$0")"
export GOFLAGS=-mod=mod GOPROXY=off GOSUMDB=off GOTOOLCHAIN=local PATH=/opt/veriftools/go1.26.8/bin:$PATH
mkdir -p bin evidence
(cd engine && go build -o ../bin/goverif ./cmd/goverif)
echo setup ok
