#!/bin/sh
# usage: tools_trymut.sh <patch.diff> <ID>...   apply a seeded change to /repo, run the checks, undo it
p=$1; shift
git -C /repo apply "$p" || { echo "PATCH DOES NOT APPLY"; exit 3; }
for id in "$@"; do (cd /verif && VERIF_NOCACHE=1 ./check $id 2>&1 | grep -E "VIOLATION|UNDECIDED|KNOWN|obligations," ); done
git -C /repo checkout -- . 
