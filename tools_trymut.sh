#!/bin/sh
# usage: tools_trymut.sh <patch.diff> <ID>...   apply a seeded change to /repo, run the checks, undo it
# (evidence of these runs goes to a scratch directory, never to /verif/evidence)
p=$1; shift
if [ -n "$(git -C /repo status --porcelain)" ]; then echo "REFUSING: /repo has uncommitted changes (commit the contract edits first)"; exit 4; fi
git -C /repo apply "$p" || { echo "PATCH DOES NOT APPLY"; exit 3; }
ev=/var/tmp/verif-scratch/trymut-evidence; mkdir -p $ev
for id in "$@"; do (cd /verif && VERIF_EVIDENCE_DIR=$ev VERIF_NOCACHE=1 ./check $id 2>&1 | grep -E "VIOLATION|UNDECIDED|KNOWN|obligations," ); done
git -C /repo checkout -- . 
rm -rf $ev
