#!/bin/sh
# runs every registered check (quick tier, no cache) and prints only the ones that are not clean
cd /verif
for i in $(python3 -c "import json;print(' '.join(json.load(open('props.json')).keys()))"); do
  VERIF_NOCACHE=1 VERIF_EVIDENCE_DIR=${VERIF_EVIDENCE_DIR:-/verif/evidence} ./check $i 2>&1 | tail -1 | grep -v " 0 violations" 
done
echo regress-done
