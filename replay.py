"""Replay of solver counterexamples on the real code.

A replay file (replays/<ID>/<obligation>.json) carries the obligation, the solver output and the
model.  replay() turns the model into a concrete in-package Go test, injects it with
`go test -overlay` (nothing is written into /repo) and reports whether the real code fails the
way the obligation says (panic for safety obligations, violated assertion for post/step).
Functions without a template cannot be replayed: the violation is then reported with
`no-failing-input-found` and the replay file still names the obligation and carries the solver output.
"""
import json
import os
import re
import subprocess
import tempfile

VERIF = os.path.dirname(os.path.abspath(__file__))
SCRATCH = os.environ.get("VERIF_SCRATCH", "/var/tmp/verif-scratch")


def smt_int(s, default=None):
    if s is None:
        return default
    s = s.strip()
    m = re.fullmatch(r"\(-\s*(\d+)\)", s)
    if m:
        return -int(m.group(1))
    if re.fullmatch(r"-?\d+", s):
        return int(s)
    return default


def clamp(n, lo, hi):
    return max(lo, min(hi, n))


def ints_of(model):
    out = {}
    for k, v in model.items():
        i = smt_int(v)
        if i is not None:
            out[k] = i
    return out


HEADER = '''package %(pkg)s

import (
	"fmt"
	"testing"
%(imports)s
)

var _ = fmt.Sprint

func verifCatch(t *testing.T, what string, f func()) {
	defer func() {
		if r := recover(); r != nil {
			fmt.Printf("VERIF-REPRODUCED %%s: panic: %%v\\n", what, r)
		}
	}()
	f()
}
'''


def go_str(s):
    return json.dumps(s)


# ---- templates ---------------------------------------------------------------------------------------
# each template: (rep, ints) -> (package dir relative to repo, package name, imports, body) or None


def t_isValidElementIndex(rep, ints):
    n = ints.get("length", 3)
    ks = [v for k, v in ints.items() if k.startswith("$atoi(")] or [-n - 1]
    body = "func TestVerifReplay(t *testing.T) {\n"
    for k in ks:
        body += '''	verifCatch(t, "isValidElementIndex", func() {
		key, length := "%d", %d
		r, err := isValidElementIndex(key, length)
		k := %d
		if err == nil && (r < 0 || r >= length) { fmt.Printf("VERIF-REPRODUCED result %%d out of range for key %%s length %%d\\n", r, key, length) }
		if err == nil && k >= 0 && r != k { fmt.Printf("VERIF-REPRODUCED wrong element %%d for key %%s\\n", r, key) }
		if err == nil && k < 0 && r != k+length { fmt.Printf("VERIF-REPRODUCED wrong element %%d for key %%s length %%d\\n", r, key, length) }
		if err != nil && k >= -length && k < length { fmt.Printf("VERIF-REPRODUCED valid key %%s rejected (length %%d): %%v\\n", key, length, err) }
		if err == nil && (k < -length || k >= length) { fmt.Printf("VERIF-REPRODUCED invalid key %%s accepted (length %%d)\\n", key, length) }
	})
''' % (k, n, k)
    body += "}\n"
    return "lang", "lang", "", body


def t_itoIndexArray(rep, ints):
    n = clamp(ints.get("len(v)", 3), 0, 5000)
    np = clamp(ints.get("len(params)", 1), 1, 50)
    ks = [v for k, v in ints.items() if k.startswith("$atoi(")]
    if not ks:
        ks = [-n - 1]
    body = "func TestVerifReplay(t *testing.T) {\n\tInitEnv()\n"
    for k in ks:
        body += '''	verifCatch(t, "itoIndexArray", func() {
		p := NewTestProcess()
		v := make([]any, %d)
		for i := range v { v[i] = i }
		params := make([]string, %d)
		for i := range params { params[i] = "%d" }
		err := itoIndexArray(p, params, v, func(x any) ([]byte, error) { return []byte(fmt.Sprint(x)), nil })
		k, n := %d, %d
		if err == nil && (k < -n || k >= n) { fmt.Printf("VERIF-REPRODUCED out-of-range key %%d accepted for length %%d\\n", k, n) }
		if err != nil && k >= -n && k < n { fmt.Printf("VERIF-REPRODUCED valid key %%d rejected for length %%d: %%v\\n", k, n, err) }
	})
''' % (n, np, k, k, n)
    body += "}\n"
    return "lang", "lang", "", body


TEMPLATES = {
    "lang.isValidElementIndex": t_isValidElementIndex,
    "lang.itoIndexArray[any]": t_itoIndexArray,
    "lang.itoIndexArray": t_itoIndexArray,
}


def register(name):
    def deco(f):
        TEMPLATES[name] = f
        return f
    return deco


try:  # further templates live in replay_templates.py to keep this file small
    import replay_templates  # noqa: F401
    replay_templates.install(TEMPLATES, globals())
except ImportError:
    pass


_PROBE_CACHE = {}


def replay(rep, path, env, repo, quiet=True):
    fn = rep.get("func", "")
    tmpl = TEMPLATES.get(fn)
    if tmpl is None and globals().get("PROPERTY_PROBES") is not None and rep.get("property") in getattr(replay_templates, "PROBES", {}):
        tmpl = globals()["PROPERTY_PROBES"]
        key = ("probes", rep.get("property"), repo)
        if key in _PROBE_CACHE:  # one interpreter run per property and check run
            rep["replay"] = _PROBE_CACHE[key][0]
            json.dump(rep, open(path, "w"), indent=1)
            return _PROBE_CACHE[key][1]
        rep["_probe_key"] = list(key)
    if tmpl is None:
        rep["replay"] = "no replay template for " + fn
        json.dump(rep, open(path, "w"), indent=1)
        if not quiet:
            print(rep["replay"])
        return False
    ints = ints_of(rep.get("model") or {})
    got = tmpl(rep, ints)
    if got is None:
        rep["replay"] = "template could not build an input from the model"
        json.dump(rep, open(path, "w"), indent=1)
        return False
    pkgdir, pkgname, imports, body = got
    src = HEADER % dict(pkg=pkgname, imports=imports) + body
    os.makedirs(SCRATCH, exist_ok=True)
    d = tempfile.mkdtemp(prefix="replay-", dir=SCRATCH)
    try:
        tf = os.path.join(d, "zz_verif_replay_test.go")
        open(tf, "w").write(src)
        ov = os.path.join(d, "ov.json")
        json.dump({"Replace": {os.path.join(repo, pkgdir, "zz_verif_replay_test.go"): tf}}, open(ov, "w"))
        cmd = ["go", "test", "-overlay", ov, "-vet=off", "-timeout", "60s", "-count=1", "-v", "-run", "^TestVerifReplay$", "./" + pkgdir + "/"]
        p = subprocess.run("ulimit -v 8000000; " + " ".join(cmd), shell=True, cwd=repo, env=env, capture_output=True, text=True, timeout=600)
        out = p.stdout + p.stderr
        hits = [l for l in out.split("\n") if "VERIF-REPRODUCED" in l]
        timed_out = "panic: test timed out" in out
        rep["replay"] = dict(cmd=" ".join(cmd), test_source=src, reproduced=bool(hits) or timed_out, output_tail=out[-1500:],
                             hits=hits[:5] + (["test timed out after 60s (hang)"] if timed_out else []))
        pk = rep.pop("_probe_key", None)
        if pk:
            _PROBE_CACHE[tuple(pk)] = (rep["replay"], bool(hits) or timed_out)
        json.dump(rep, open(path, "w"), indent=1)
        if not quiet:
            print(out[-1500:])
        return bool(hits) or timed_out
    finally:
        import shutil
        shutil.rmtree(d, ignore_errors=True)
