"""Replay templates that need murex plumbing (a process, a fork, a script)."""

SCRIPT_IMPORTS = '''	_ "github.com/lmorg/murex/builtins"
	"github.com/lmorg/murex/config"
	"github.com/lmorg/murex/config/defaults"
	"github.com/lmorg/murex/lang"
	"github.com/lmorg/murex/lang/ref"
	"strings"'''

SCRIPT_RUNNER = '''
func verifRun(block string) (string, string, int) {
	defaults.Config(config.InitConf, false)
	lang.InitEnv()
	fork := lang.ShellProcess.Fork(lang.F_FUNCTION | lang.F_NEW_MODULE | lang.F_NO_STDIN | lang.F_CREATE_STDOUT | lang.F_CREATE_STDERR)
	fork.Name.Set("verif-replay")
	fork.FileRef = &ref.File{Source: &ref.Source{Module: "murex/verif-replay"}}
	exitNum, err := fork.Execute([]rune(block))
	if err != nil {
		return "", "execute error: " + err.Error(), -1
	}
	bErr, _ := fork.Stderr.ReadAll()
	bOut, _ := fork.Stdout.ReadAll()
	return string(bOut), string(bErr), exitNum
}

func verifScript(t *testing.T, block string, check func(stdout, stderr string, exit int) string) {
	verifCatch(t, "script", func() {
		so, se, ex := verifRun(block)
		if strings.Contains(se, "panic caught") || strings.Contains(se, "Murex has crashed") || strings.Contains(se, "nil pointer dereference") || strings.Contains(se, "index out of range") || strings.Contains(se, "slice bounds out of range") {
			fmt.Printf("VERIF-REPRODUCED internal panic reported for %q: %s\\n", block, strings.TrimSpace(se))
			return
		}
		if check != nil {
			if msg := check(so, se, ex); msg != "" {
				fmt.Printf("VERIF-REPRODUCED %s (script %q, stdout %q, stderr %q, exit %d)\\n", msg, block, so, se, ex)
			}
		}
	})
}
'''


def script_test(pkgdir, pkgname, scripts):
    """scripts: list of (block, go check func source or 'nil')"""
    body = SCRIPT_RUNNER + "\nfunc TestVerifReplay(t *testing.T) {\n"
    for block, chk in scripts:
        body += "\tverifScript(t, %s, %s)\n" % (go_quote(block), chk)
    body += "}\n"
    return pkgdir, pkgname, SCRIPT_IMPORTS, body


def go_quote(s):
    import json
    return json.dumps(s)


def t_cmdArgs(rep, ints):
    return script_test("builtins/core/management", "management_test", [
        ('function verifargs { args a %{Flags: {--str: str}}; out $a }\nverifargs --bogus', "nil"),
        ('function verifargs2 { args a %{Flags: {--str: str}}; out $a }\nverifargs2 --str', "nil"),
    ])


def t_stdin_ReadAll(rep, ints):
    body = '''func TestVerifReplay(t *testing.T) {
	verifCatch(t, "ReadAll", func() {
		s := NewStdin()
		s.Open()
		s.Write([]byte("abcdef"))
		s.Close()
		p := make([]byte, 2)
		n, _ := s.Read(p)
		b, _ := s.ReadAll()
		w, r := s.Stats()
		if r != w { fmt.Printf("VERIF-REPRODUCED counters after Read(%d bytes)+ReadAll(%d bytes): written=%d read=%d (bRead overwritten, not accumulated)\\n", n, len(b), w, r) }
		q := make([]byte, 16)
		s.Open(); s.Close()
		m, _ := s.Read(q)
		if m > 0 { fmt.Printf("VERIF-REPRODUCED bytes %q handed out by ReadAll are delivered again by a later Read (buffer not drained)\\n", string(q[:m])) }
	})
}
'''
    return "builtins/pipes/streams", "streams", "", body


def t_expLogical(rep, ints):
    chk = lambda want: 'func(so, se string, ex int) string { if strings.TrimSpace(so) != "%s" { return "expected %s" }; return "" }' % (want, want)
    return script_test("lang/expressions", "expressions_test", [
        ('out (false && true)', chk("false")),
        ('out (0 || 0)', chk("false")),
        ('out ("no" || false)', chk("false")),
        ('out (true && true)', chk("true")),
    ])


def t_parseBlock(rep, ints):
    inputs = ["out a>> f", "out a~> f", "a|:", "out ab>> f", "out (", "a>>", "a~>", "a $.(", "%[("]
    body = "func TestVerifReplay(t *testing.T) {\n"
    for s in inputs:
        body += '''	verifCatch(t, %s, func() {
		done := make(chan bool, 1)
		go func() {
			defer func() {
				if r := recover(); r != nil { fmt.Printf("VERIF-REPRODUCED ParseBlock(%%q): panic: %%v\\n", %s, r) }
				done <- true
			}()
			blk := NewBlock([]rune(%s))
			blk.ParseBlock()
		}()
		select {
		case <-done:
		case <-time.After(5 * time.Second):
			fmt.Printf("VERIF-REPRODUCED ParseBlock(%%q) did not return within 5s (hang)\\n", %s)
		}
	})
''' % (go_quote(s), go_quote(s), go_quote(s), go_quote(s))
    body += "}\n"
    return "lang/expressions", "expressions", '\t"time"', body


def t_createProcess(rep, ints):
    chk = 'func(so, se string, ex int) string { if !strings.Contains(so, "hello") { return "stderr redirected with <!out> did not arrive on stdout" }; return "" }'
    return script_test("lang", "lang_test", [
        ('err <!out> hello', chk),
        ('out start; err <!out> hello', chk),
    ])


def expect(stdout=None, exit0=None, nonzero=False, contains=None):
    """Go source of a check function: the message says what the property prescribes."""
    conds = []
    if stdout is not None:
        conds.append('if so != %s { return %s }' % (go_quote(stdout), go_quote("stdout differs from what the property prescribes: " + repr(stdout))))
    if exit0:
        conds.append('if ex != 0 { return "exit number is not 0" }')
    if nonzero:
        conds.append('if ex == 0 { return "exit number is 0 although the call must fail" }')
    if contains is not None:
        conds.append('if !strings.Contains(so, %s) { return %s }' % (go_quote(contains), go_quote("stdout lacks " + repr(contains))))
    return "func(so, se string, ex int) string { " + " ; ".join(conds) + ' ; return "" }'


# Property-level probes: small murex scripts whose prescribed output follows from the property
# statement. They are run against the real interpreter when an obligation of the property fails and
# no function-level template exists; a probe that fails is a concrete failing input for the VIOLATION
# line. Every probe passes on the unchanged tree (tools_probes.py checks that).
PROBES = {
    "C17": [
        ("a [1..5] -> [2..3]", expect("2\n3\n")),
        ("a [1..5] -> [2..]", expect("2\n3\n4\n5\n")),
        ("a [1..5] -> [..2]", expect("1\n2\n")),
        ("a [1..5] -> [..1]", expect("1\n")),
        ("a [1..5] -> [-2..]", expect("4\n5\n")),
        ("a [1..5] -> [-5..]", expect("1\n2\n3\n4\n5\n")),
        ("a [1..5] -> [2..4]e", expect("3\n")),
        ("a [1..5] -> [..3]e", expect("1\n2\n")),
        ("a [1..3] -> [2..9]", expect("2\n3\n")),
    ],
    "C18": [
        ("a [1..3]", expect("1\n2\n3\n")),
        ("a [3..1]", expect("3\n2\n1\n")),
        ("a [08..11]", expect("08\n09\n10\n11\n")),
        ("a [98..101]", expect("98\n99\n100\n101\n")),
        ("a [098..101]", expect("098\n099\n100\n101\n")),
        ("a [7..007]", expect("007\n")),
        ("a [1..2][1..2][1..2]", expect("111\n112\n121\n122\n211\n212\n221\n222\n")),
        ("a x[1..2]y[3..4]", expect("x1y3\nx1y4\nx2y3\nx2y4\n")),
    ],
    "C23": [
        ('function verif.f1 (a: str, !b: int [5]) { out "$(a):$(b)" }\nverif.f1 x', expect("x:5\n")),
        ('function verif.f2 (!l: str, !c: int [7]) { out "<$(c)>" }\nverif.f2', expect("<7>\n")),
        ('function verif.f3 (!a: str [x y]) { out "<$(a)>" }\nverif.f3', expect("<x y>\n")),
        ('function verif.f4 (a: str, b: int) { out "$(b)$(a)" }\nverif.f4 q 12', expect("12q\n")),
        ('function verif.f5 (n: int) { out ran }\nverif.f5 abc', expect(stdout="", nonzero=True)),
    ],
    "C35": [
        (r"""out 'a&b <c> "d"' -> eschtml -> !eschtml""", expect('a&b <c> "d"\n')),
        (r"""out 'x&amp;y' -> escape -> !escape""", expect("x&amp;y\n")),
        (r"""out 'a+b c/d' -> escurl -> !escurl""", expect("a+b c/d\n")),
        (r"""out 'tab\there "q"' -> escape -> !escape""", expect('tab\\there "q"\n')),
    ],
    "C38": [
        ('tout json ([\"a\",\"b\"]) -> prepend x y', expect('["x","y","a","b"]')),
        ('tout json ([\"a\",\"b\"]) -> append x y', expect('["a","b","x","y"]')),
        ('tout json ([\"Monday\",\"Tu\",\"Sunday\",\"x\"]) -> match day', expect('["Monday","Sunday"]')),
        ('tout json ([\"Monday\",\"Tu\",\"Sunday\",\"x\"]) -> !match day', expect('["Tu","x"]')),
        ('tout json ([\"a\",\"b\",\"c\"]) -> mtac', expect('["c","b","a"]')),
    ],
    "C06": [
        ("out (1+2*3)", expect("7\n")),
        ("out (2*3+1)", expect("7\n")),
        ("out (10-4-3)", expect("3\n")),
        ("out (8/4/2)", expect("1\n")),
        ("out (2+10/4)", expect("4.5\n")),
        ("out (1-2*3+4)", expect("-1\n")),
    ],
    "C09": [
        (r"""out 'a\nb $x ~ "q"'""", expect('a\\nb $x ~ "q"\n')),
        (r"""out "a\sb\tc\\d\"e" """, expect('a b\tc\\d"e\n')),
        (r"""out %(a\sb (c) d)""", expect("a\\sb (c) d\n")),
        (r"""out "d\"e" """, expect('d"e\n')),
        ("out a '' b", expect("a  b\n")),
        ('out a "" b', expect("a  b\n")),
        (r"""out "c\\d\"e" x""", expect('c\\d"e x\n')),
    ],
    "C15": [
        ('tout json ([\"a\",\"b\",\"c\"]) -> foreach v { out "<$(v)>" }', expect("<a>\n<b>\n<c>\n")),
        ("a [1..3] -> foreach v { out \"$(v)$(v)\" }", expect("11\n22\n33\n")),
    ],
}


PROBES.update({
    "C04": [
        ("true && out a || out b", expect("a\n")),
        ("false && out a && out b ; out c", expect("c\n")),
        ("true || out a || out b ; out c", expect("c\n")),
    ],
    "C05": [
        ("try { true || out b || out c }\nout d", expect("d\n")),
        ("try { out a ; false ; out b }", expect("a\nfalse", nonzero=True)),
        ("try { false || out b }", expect("b\n")),
    ],
    "C07": [
        ("if { out false } then { out T } else { out F }", expect("F\n")),
        ("if { out 'anything' } then { out T } else { out F }", expect("T\n")),
        ("out (false && true)", expect("false\n")),
        ("out (0 || 0)", expect("false\n")),
        ("out (1 && true)", expect("true\n")),
        ("out (true || false && false)", expect("true\n")),
    ],
    "C16": [
        ('tout json ([\"a\",\"b\",\"c\"]) -> [1]', expect("b")),
        ('tout json ([\"a\",\"b\",\"c\"]) -> [-1]', expect("c")),
        ('tout json ([\"a\",\"b\",\"c\"]) -> [3]', expect(nonzero=True)),
        ('tout json ([\"a\",\"b\",\"c\"]) -> [-4]', expect(nonzero=True)),
    ],
    "C11": [
        ("global verifg = g\nfunction verif.v { set verifg = l ; out $verifg }\nverif.v\nout $verifg", expect("l\ng\n")),
    ],
})


PROBES.update({
    "C39": [
        ("%[1..5] -> foreach i { if { $i == 3 } then { break foreach } ; out $i }\nout end", expect("1\n2\nend\n")),
        ("%[1..4] -> foreach i { if { $i == 2 } then { continue foreach } ; out $i }\nout end", expect("1\n3\n4\nend\n")),
        ("function verif.r { out a ; return 3 ; out b }\nverif.r\nexitnum", expect("a\n3\n")),
        ("%[1..2] -> foreach o { %[1..3] -> foreach i { if { $i == 2 } then { break foreach } ; out \"$(o)$(i)\" } }\nout end", expect("11\n21\nend\n")),
    ],
})


def t_probes(rep, ints):
    pid = rep.get("property", "")
    if pid not in PROBES:
        return None
    return script_test("builtins/core/structs", "structs_test", PROBES[pid])


def install(T, g):
    g["PROPERTY_PROBES"] = t_probes
    T["lang.createProcess"] = t_createProcess
    T["lang/expressions.(*ParserT).parseStatement"] = t_parseBlock
    T["lang/expressions.(*ParserT).parseExpression"] = t_parseBlock
    T["lang/expressions.(*ParserT).parseSubExpression"] = t_parseBlock
    T["lang/expressions.(*ParserT).parseBareword"] = t_parseBlock
    T["lang/expressions.processStatementColon"] = t_parseBlock
    T["lang/expressions.expLogicalAnd"] = t_expLogical
    T["lang/expressions.expLogicalOr"] = t_expLogical
    T["builtins/pipes/streams.(*Stdin).ReadAll"] = t_stdin_ReadAll
    T["builtins/core/management.cmdArgs"] = t_cmdArgs
