"""Replay templates that need murex plumbing (a process, a fork, a script)."""

SCRIPT_IMPORTS = '''	_ "github.com/lmorg/murex/builtins"
	"github.com/lmorg/murex/config"
	"github.com/lmorg/murex/config/defaults"
	"github.com/lmorg/murex/lang"
	"github.com/lmorg/murex/lang/ref"
	"strings"'''

SCRIPT_RUNNER = '''
func verifRun(block string) (string, string, int) {
	defaults.Config(config.InitConf, false)
	lang.InitEnv()
	fork := lang.ShellProcess.Fork(lang.F_FUNCTION | lang.F_NEW_MODULE | lang.F_NO_STDIN | lang.F_CREATE_STDOUT | lang.F_CREATE_STDERR)
	fork.Name.Set("verif-replay")
	fork.FileRef = &ref.File{Source: &ref.Source{Module: "murex/verif-replay"}}
	exitNum, err := fork.Execute([]rune(block))
	if err != nil {
		return "", "execute error: " + err.Error(), -1
	}
	bErr, _ := fork.Stderr.ReadAll()
	bOut, _ := fork.Stdout.ReadAll()
	return string(bOut), string(bErr), exitNum
}

func verifScript(t *testing.T, block string, check func(stdout, stderr string, exit int) string) {
	verifCatch(t, "script", func() {
		so, se, ex := verifRun(block)
		if strings.Contains(se, "panic caught") || strings.Contains(se, "Murex has crashed") || strings.Contains(se, "nil pointer dereference") || strings.Contains(se, "index out of range") || strings.Contains(se, "slice bounds out of range") {
			fmt.Printf("VERIF-REPRODUCED internal panic reported for %q: %s\\n", block, strings.TrimSpace(se))
			return
		}
		if check != nil {
			if msg := check(so, se, ex); msg != "" {
				fmt.Printf("VERIF-REPRODUCED %s (script %q, stdout %q, stderr %q, exit %d)\\n", msg, block, so, se, ex)
			}
		}
	})
}
'''


def script_test(pkgdir, pkgname, scripts):
    """scripts: list of (block, go check func source or 'nil')"""
    body = SCRIPT_RUNNER + "\nfunc TestVerifReplay(t *testing.T) {\n"
    for block, chk in scripts:
        body += "\tverifScript(t, %s, %s)\n" % (go_quote(block), chk)
    body += "}\n"
    return pkgdir, pkgname, SCRIPT_IMPORTS, body


def go_quote(s):
    import json
    return json.dumps(s)


def t_cmdArgs(rep, ints):
    return script_test("builtins/core/management", "management_test", [
        ('function verifargs { args a %{Flags: {--str: str}}; out $a }\nverifargs --bogus', "nil"),
        ('function verifargs2 { args a %{Flags: {--str: str}}; out $a }\nverifargs2 --str', "nil"),
    ])


def install(T, g):
    T["builtins/core/management.cmdArgs"] = t_cmdArgs
