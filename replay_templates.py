"""Replay templates that need murex plumbing (a process, a fork, a script)."""

SCRIPT_IMPORTS = '''	_ "github.com/lmorg/murex/builtins"
	"github.com/lmorg/murex/config"
	"github.com/lmorg/murex/config/defaults"
	"github.com/lmorg/murex/lang"
	"github.com/lmorg/murex/lang/ref"
	"strings"'''

SCRIPT_RUNNER = '''
func verifRun(block string) (string, string, int) {
	defaults.Config(config.InitConf, false)
	lang.InitEnv()
	fork := lang.ShellProcess.Fork(lang.F_FUNCTION | lang.F_NEW_MODULE | lang.F_NO_STDIN | lang.F_CREATE_STDOUT | lang.F_CREATE_STDERR)
	fork.Name.Set("verif-replay")
	fork.FileRef = &ref.File{Source: &ref.Source{Module: "murex/verif-replay"}}
	exitNum, err := fork.Execute([]rune(block))
	if err != nil {
		return "", "execute error: " + err.Error(), -1
	}
	bErr, _ := fork.Stderr.ReadAll()
	bOut, _ := fork.Stdout.ReadAll()
	return string(bOut), string(bErr), exitNum
}

func verifScript(t *testing.T, block string, check func(stdout, stderr string, exit int) string) {
	verifCatch(t, "script", func() {
		so, se, ex := verifRun(block)
		if strings.Contains(se, "panic caught") || strings.Contains(se, "Murex has crashed") || strings.Contains(se, "nil pointer dereference") || strings.Contains(se, "index out of range") || strings.Contains(se, "slice bounds out of range") {
			fmt.Printf("VERIF-REPRODUCED internal panic reported for %q: %s\\n", block, strings.TrimSpace(se))
			return
		}
		if check != nil {
			if msg := check(so, se, ex); msg != "" {
				fmt.Printf("VERIF-REPRODUCED %s (script %q, stdout %q, stderr %q, exit %d)\\n", msg, block, so, se, ex)
			}
		}
	})
}
'''


def script_test(pkgdir, pkgname, scripts):
    """scripts: list of (block, go check func source or 'nil')"""
    body = SCRIPT_RUNNER + "\nfunc TestVerifReplay(t *testing.T) {\n"
    for block, chk in scripts:
        body += "\tverifScript(t, %s, %s)\n" % (go_quote(block), chk)
    body += "}\n"
    return pkgdir, pkgname, SCRIPT_IMPORTS, body


def go_quote(s):
    import json
    return json.dumps(s)


def t_cmdArgs(rep, ints):
    return script_test("builtins/core/management", "management_test", [
        ('function verifargs { args a %{Flags: {--str: str}}; out $a }\nverifargs --bogus', "nil"),
        ('function verifargs2 { args a %{Flags: {--str: str}}; out $a }\nverifargs2 --str', "nil"),
    ])


def t_stdin_ReadAll(rep, ints):
    body = '''func TestVerifReplay(t *testing.T) {
	verifCatch(t, "ReadAll", func() {
		s := NewStdin()
		s.Open()
		s.Write([]byte("abcdef"))
		s.Close()
		p := make([]byte, 2)
		n, _ := s.Read(p)
		b, _ := s.ReadAll()
		w, r := s.Stats()
		if r != w { fmt.Printf("VERIF-REPRODUCED counters after Read(%d bytes)+ReadAll(%d bytes): written=%d read=%d (bRead overwritten, not accumulated)\\n", n, len(b), w, r) }
		q := make([]byte, 16)
		s.Open(); s.Close()
		m, _ := s.Read(q)
		if m > 0 { fmt.Printf("VERIF-REPRODUCED bytes %q handed out by ReadAll are delivered again by a later Read (buffer not drained)\\n", string(q[:m])) }
	})
}
'''
    return "builtins/pipes/streams", "streams", "", body


def t_expLogical(rep, ints):
    chk = lambda want: 'func(so, se string, ex int) string { if strings.TrimSpace(so) != "%s" { return "expected %s" }; return "" }' % (want, want)
    return script_test("lang/expressions", "expressions_test", [
        ('out (false && true)', chk("false")),
        ('out (0 || 0)', chk("false")),
        ('out ("no" || false)', chk("false")),
        ('out (true && true)', chk("true")),
    ])


def t_parseBlock(rep, ints):
    inputs = ["out a>> f", "out a~> f", "a|:", "out ab>> f", "out (", "a>>", "a~>", "a $.(", "%[("]
    body = "func TestVerifReplay(t *testing.T) {\n"
    for s in inputs:
        body += '''	verifCatch(t, %s, func() {
		done := make(chan bool, 1)
		go func() {
			defer func() {
				if r := recover(); r != nil { fmt.Printf("VERIF-REPRODUCED ParseBlock(%%q): panic: %%v\\n", %s, r) }
				done <- true
			}()
			blk := NewBlock([]rune(%s))
			blk.ParseBlock()
		}()
		select {
		case <-done:
		case <-time.After(5 * time.Second):
			fmt.Printf("VERIF-REPRODUCED ParseBlock(%%q) did not return within 5s (hang)\\n", %s)
		}
	})
''' % (go_quote(s), go_quote(s), go_quote(s), go_quote(s))
    body += "}\n"
    return "lang/expressions", "expressions", '\t"time"', body


def t_createProcess(rep, ints):
    chk = 'func(so, se string, ex int) string { if !strings.Contains(so, "hello") { return "stderr redirected with <!out> did not arrive on stdout" }; return "" }'
    return script_test("lang", "lang_test", [
        ('err <!out> hello', chk),
        ('out start; err <!out> hello', chk),
    ])


def install(T, g):
    T["lang.createProcess"] = t_createProcess
    T["lang/expressions.(*ParserT).parseStatement"] = t_parseBlock
    T["lang/expressions.(*ParserT).parseExpression"] = t_parseBlock
    T["lang/expressions.(*ParserT).parseSubExpression"] = t_parseBlock
    T["lang/expressions.(*ParserT).parseBareword"] = t_parseBlock
    T["lang/expressions.processStatementColon"] = t_parseBlock
    T["lang/expressions.expLogicalAnd"] = t_expLogical
    T["lang/expressions.expLogicalOr"] = t_expLogical
    T["builtins/pipes/streams.(*Stdin).ReadAll"] = t_stdin_ReadAll
    T["builtins/core/management.cmdArgs"] = t_cmdArgs
