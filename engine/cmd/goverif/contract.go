package main

// Contract files: //@ lines in /repo/<pkg>/zz_verif_contracts.go (build tag verif, comment-only) and
// extern/spec declarations in /verif/specs/*.spec.

import (
	"bufio"
	"fmt"
	"go/ast"
	"go/parser"
	"os"
	"regexp"
	"strings"
)

type Clause struct {
	Text string
	Expr ast.Expr
	Src  string // file:line
	// Assumed: a trusted clause (`ensures-trusted`): assumed at call sites, not checked against the
	// body; every use is listed in the evidence
	Assumed bool
}

type LoopSpec struct {
	Invariants []Clause
	Decreases  *Clause
	Steps      []Clause
}

type CallSiteSpec struct {
	Callee  string
	Ordinal int
	Asserts []Clause
	Assumes []Clause // none allowed without listing; kept for `label`
	LineHas string   // `at call f@"text" …`: the call site whose source line contains text (instead of an ordinal)
	Frame   []Clause // `at call X#N modifies a, b | nothing`: trusted frame of a contract-less callee at this site
	HasFrame bool
}

type FuncContract struct {
	Key        string
	Pkg        string // package path the contract file belongs to ("" for extern)
	Tags       []string
	Requires   []Clause
	Ensures    []Clause
	Modifies   []Clause
	HasMod     bool
	ModNothing bool
	Loops      map[string]*LoopSpec
	Calls      []*CallSiteSpec
	Asserts    []Clause // `assert` at return (lemma harness)
	Scope      string   // "full" (default) | "functional"
	Trusted    bool
	Pure       bool
	Extern     bool
	Fresh      bool // extern: result is a freshly allocated object
	NoPanic    bool
	Ghost      []GhostUpdate
	Notes      []string
	Inst       []Clause // instantiation hints (integer shift terms)
	CheckOnly  []string // bounds obligations only for indexing/slicing of these variables
	Prune      bool // ask the solver about every conditional edge and do not follow refuted ones
	Dispatch   map[string]Clause // interface type key -> concrete type: invokes on that interface are calls of the concrete method (obligation: the dynamic type is that type)
	Check      []string // if set: the only safety obligation kinds generated for this function
	Unlocks    []*CallSiteSpec // `at unlock #N|#* assert …`: checked at that Unlock; old(e) = the state at the matching Lock
	Returns    []*CallSiteSpec // `at return #N assert …`: checked at the N-th return statement (source order)
	Stores     []*CallSiteSpec // `at store Field#N assert …`: checked right after the N-th store (source order) to a field of that name
	Src        string
	Used       bool
}

type GhostUpdate struct {
	At   string // "unlock N" | "return"
	LHS  Clause
	RHS  Clause
}

type TypeSpec struct {
	Name       string // type key relative to murex root, e.g. lang.jobs
	GuardedBy  string
	Guarded    []string
	Invariants []Clause
	Guarantees []Clause
	Ghost      map[string]string // name -> sort text (Int, Bool, Str, seq)
	Bitvector  bool
	Atomic     []string
}

type SpecFunc struct {
	Name   string
	Params []string
	PSorts []Sort
	Res    Sort
	Body   *Clause
}

type Contracts struct {
	Funcs map[string]*FuncContract // key: pkgpath-relative "pkg:Key" or extern key
	Types map[string]*TypeSpec
	Specs map[string]*SpecFunc
	Files []string
}

func NewContracts() *Contracts {
	return &Contracts{Funcs: map[string]*FuncContract{}, Types: map[string]*TypeSpec{}, Specs: map[string]*SpecFunc{}}
}

const ghostPrefix = "Ⴕ" // stands for '$' inside Go-parsed spec expressions

var reDollar = regexp.MustCompile(`\$([A-Za-z_])`)

func parseSpecExpr(text, src string) (Clause, error) {
	t := reDollar.ReplaceAllString(text, ghostPrefix+"$1")
	// old@label(e) -> oldAt("label", e)
	t = regexp.MustCompile(`old@([A-Za-z0-9_]+)\(`).ReplaceAllString(t, `oldAt("$1", `)
	e, err := parser.ParseExpr(t)
	if err != nil {
		return Clause{}, fmt.Errorf("%s: cannot parse spec expression %q: %v", src, text, err)
	}
	return Clause{Text: text, Expr: e, Src: src}, nil
}

func sortFromText(s string) (Sort, error) {
	switch s {
	case "int", "Int", "ref", "byte", "rune":
		return SInt, nil
	case "bool", "Bool":
		return SBool, nil
	case "string", "Str":
		return SStr, nil
	case "slice", "Slice":
		return SSlice, nil
	case "any", "error", "Iface":
		return SIface, nil
	case "float64", "F64":
		return SF64, nil
	case "bv", "BV64":
		return SBV, nil
	}
	return "", fmt.Errorf("unknown sort %q", s)
}

// LoadFile parses one contract/spec file. pkg is the package path (relative to murex root) the
// file belongs to, or "" for /verif/specs files.
func (c *Contracts) LoadFile(path, pkg string) error {
	f, err := os.Open(path)
	if err != nil {
		return err
	}
	defer f.Close()
	c.Files = append(c.Files, path)
	sc := bufio.NewScanner(f)
	sc.Buffer(make([]byte, 1<<20), 1<<20)
	type rawLine struct {
		text string
		no   int
	}
	var lines []rawLine
	no := 0
	for sc.Scan() {
		no++
		l := strings.TrimSpace(sc.Text())
		if strings.HasPrefix(l, "//@") {
			l = strings.TrimSpace(l[3:])
		} else if pkg != "" {
			continue // in Go files only //@ lines count
		}
		if l == "" || strings.HasPrefix(l, "--") || strings.HasPrefix(l, "#") || strings.HasPrefix(l, "//") {
			continue
		}
		if i := strings.Index(l, " -- "); i >= 0 {
			l = strings.TrimSpace(l[:i])
		}
		// continuation: previous line has unbalanced parentheses or this one starts with an operator
		if len(lines) > 0 && (parenDepth(lines[len(lines)-1].text) > 0 || strings.HasPrefix(l, "&&") || strings.HasPrefix(l, "||")) {
			lines[len(lines)-1].text += " " + l
			continue
		}
		lines = append(lines, rawLine{l, no})
	}
	var cur *FuncContract
	for _, rl := range lines {
		src := fmt.Sprintf("%s:%d", path, rl.no)
		w := strings.Fields(rl.text)
		rest := func(n int) string {
			s := rl.text
			for i := 0; i < n; i++ {
				s = strings.TrimSpace(s)
				j := strings.IndexAny(s, " \t")
				if j < 0 {
					return ""
				}
				s = s[j:]
			}
			return strings.TrimSpace(s)
		}
		switch w[0] {
		case "func", "extern":
			body := rest(1)
			var tags []string
			if m := regexp.MustCompile(`\[((?:C[0-9]+\s*)+)\]`).FindStringSubmatchIndex(body); m != nil {
				tags = strings.Fields(body[m[2]:m[3]])
				body = strings.TrimSpace(body[:m[0]] + " " + body[m[1]:])
			}
			fields := strings.Fields(body)
			key := fields[0]
			cur = &FuncContract{Key: key, Pkg: pkg, Tags: tags, Loops: map[string]*LoopSpec{}, Scope: "full", Src: src}
			if w[0] == "extern" {
				cur.Extern = true
				cur.Pkg = ""
			}
			for _, fl := range fields[1:] {
				switch fl {
				case "pure":
					cur.Pure = true
				case "trusted":
					cur.Trusted = true
				case "fresh":
					cur.Fresh = true
				default:
					return fmt.Errorf("%s: unknown function flag %q", src, fl)
				}
			}
			k := cur.Key
			if !cur.Extern {
				k = pkg + ":" + cur.Key
			}
			if _, dup := c.Funcs[k]; dup {
				return fmt.Errorf("%s: duplicate contract for %s", src, k)
			}
			c.Funcs[k] = cur
		case "requires", "ensures", "assert", "ensures-trusted":
			if cur == nil {
				return fmt.Errorf("%s: clause outside func", src)
			}
			cl, err := parseSpecExpr(rest(1), src)
			if err != nil {
				return err
			}
			switch w[0] {
			case "requires":
				cur.Requires = append(cur.Requires, cl)
			case "ensures":
				cur.Ensures = append(cur.Ensures, cl)
			case "ensures-trusted":
				cl.Assumed = true
				cur.Ensures = append(cur.Ensures, cl)
			case "assert":
				cur.Asserts = append(cur.Asserts, cl)
			}
		case "modifies":
			cur.HasMod = true
			r := rest(1)
			if r == "nothing" {
				cur.ModNothing = true
				break
			}
			for _, part := range splitTop(r) {
				cl, err := parseSpecExpr(part, src)
				if err != nil {
					return err
				}
				cur.Modifies = append(cur.Modifies, cl)
			}
		case "check":
			for _, part := range splitTop(rest(1)) {
				cur.Check = append(cur.Check, strings.TrimSpace(part))
			}
		case "inst":
			for _, part := range splitTop(rest(1)) {
				cl, err := parseSpecExpr(part, src)
				if err != nil {
					return err
				}
				cur.Inst = append(cur.Inst, cl)
			}
		case "dispatch":
			// dispatch <interface type key> <concrete type expression>
			if len(w) < 3 {
				return fmt.Errorf("%s: dispatch <interface> <concrete type>", src)
			}
			cl, err := parseSpecExpr(rest(2), src)
			if err != nil {
				return err
			}
			if cur.Dispatch == nil {
				cur.Dispatch = map[string]Clause{}
			}
			cur.Dispatch[w[1]] = cl
		case "check-only":
			for _, part := range strings.Split(rest(1), ",") {
				if n := strings.TrimSpace(part); n != "" {
					cur.CheckOnly = append(cur.CheckOnly, n)
				}
			}
		case "prune":
			cur.Prune = true
		case "pure":
			cur.Pure = true
		case "trusted":
			cur.Trusted = true
		case "fresh":
			cur.Fresh = true
		case "note":
			cur.Notes = append(cur.Notes, rest(1))
		case "scope":
			cur.Scope = w[1]
		case "loop":
			if len(w) < 4 {
				return fmt.Errorf("%s: bad loop clause", src)
			}
			ls := cur.Loops[w[1]]
			if ls == nil {
				ls = &LoopSpec{}
				cur.Loops[w[1]] = ls
			}
			kind := w[2]
			exprText := rest(3)
			if kind == "step" && len(w) > 3 && w[3] == "ensures" {
				exprText = rest(4)
			}
			cl, err := parseSpecExpr(exprText, src)
			if err != nil {
				return err
			}
			switch kind {
			case "invariant":
				ls.Invariants = append(ls.Invariants, cl)
			case "decreases":
				ls.Decreases = &cl
			case "step":
				ls.Steps = append(ls.Steps, cl)
			default:
				return fmt.Errorf("%s: unknown loop clause %q", src, kind)
			}
		case "at":
			// at call <callee>#<n> assert <expr>
			if len(w) >= 5 && w[1] == "unlock" {
				ord := -1
				if w[2] != "#*" {
					fmt.Sscanf(strings.TrimPrefix(w[2], "#"), "%d", &ord)
				}
				if w[3] != "assert" {
					return fmt.Errorf("%s: only `assert` is allowed at unlocks", src)
				}
				cl, err := parseSpecExpr(rest(4), src)
				if err != nil {
					return err
				}
				us := &CallSiteSpec{Callee: "unlock", Ordinal: ord}
				us.Asserts = append(us.Asserts, cl)
				cur.Unlocks = append(cur.Unlocks, us)
				break
			}
			if len(w) >= 5 && w[1] == "return" {
				ord := 1
				fmt.Sscanf(strings.TrimPrefix(w[2], "#"), "%d", &ord)
				if w[3] != "assert" {
					return fmt.Errorf("%s: only `assert` is allowed at returns", src)
				}
				cl, err := parseSpecExpr(rest(4), src)
				if err != nil {
					return err
				}
				var rs *CallSiteSpec
				for _, x := range cur.Returns {
					if x.Ordinal == ord {
						rs = x
					}
				}
				if rs == nil {
					rs = &CallSiteSpec{Callee: "return", Ordinal: ord}
					cur.Returns = append(cur.Returns, rs)
				}
				rs.Asserts = append(rs.Asserts, cl)
				break
			}
			if len(w) >= 5 && w[1] == "store" {
				field, ord := w[2], 1
				if i := strings.LastIndex(field, "#"); i >= 0 {
					if field[i+1:] == "*" {
						ord = -1 // every store to that field (none is fine)
					} else {
						fmt.Sscanf(field[i+1:], "%d", &ord)
					}
					field = field[:i]
				}
				if w[3] != "assert" {
					return fmt.Errorf("%s: only `assert` is allowed at stores", src)
				}
				cl, err := parseSpecExpr(rest(4), src)
				if err != nil {
					return err
				}
				var ss *CallSiteSpec
				for _, x := range cur.Stores {
					if x.Callee == field && x.Ordinal == ord {
						ss = x
					}
				}
				if ss == nil {
					ss = &CallSiteSpec{Callee: field, Ordinal: ord}
					cur.Stores = append(cur.Stores, ss)
				}
				ss.Asserts = append(ss.Asserts, cl)
				break
			}
			if len(w) < 5 || w[1] != "call" {
				return fmt.Errorf("%s: bad at-clause", src)
			}
			callee, ord := w[2], 1
			lineHas := ""
			if i := strings.Index(rl.text, "@\""); i >= 0 && strings.HasPrefix(w[2], strings.SplitN(w[2], "@", 2)[0]) && strings.Contains(w[2], "@\"") {
				// at call f@"source text" assert|modifies ...   (the text may contain blanks)
				j := strings.Index(rl.text[i+2:], "\"")
				if j < 0 {
					return fmt.Errorf("%s: unterminated @\"...\" in at-clause", src)
				}
				lineHas = rl.text[i+2 : i+2+j]
				callee = strings.SplitN(w[2], "@", 2)[0]
				ord = -2
				restText := strings.TrimSpace(rl.text[i+2+j+1:])
				rw := strings.Fields(restText)
				if len(rw) < 2 {
					return fmt.Errorf("%s: bad at-clause", src)
				}
				body := strings.TrimSpace(restText[len(rw[0]):])
				var cs *CallSiteSpec
				for _, x := range cur.Calls {
					if x.Callee == callee && x.Ordinal == -2 && x.LineHas == lineHas {
						cs = x
					}
				}
				if cs == nil {
					cs = &CallSiteSpec{Callee: callee, Ordinal: -2, LineHas: lineHas}
					cur.Calls = append(cur.Calls, cs)
				}
				switch rw[0] {
				case "assert":
					cl, err := parseSpecExpr(body, src)
					if err != nil {
						return err
					}
					cs.Asserts = append(cs.Asserts, cl)
				case "modifies":
					cs.HasFrame = true
					if body != "nothing" {
						for _, part := range splitTop(body) {
							cl, err := parseSpecExpr(part, src)
							if err != nil {
								return err
							}
							cs.Frame = append(cs.Frame, cl)
						}
					}
				default:
					return fmt.Errorf("%s: only assert/modifies at call sites", src)
				}
				break
			}
			if i := strings.LastIndex(callee, "#"); i >= 0 {
				if callee[i+1:] == "*" {
					ord = -1 // every call site of that callee (none is fine)
				} else {
					fmt.Sscanf(callee[i+1:], "%d", &ord)
				}
				callee = callee[:i]
			}
			if w[3] == "modifies" {
				var cs *CallSiteSpec
				for _, x := range cur.Calls {
					if x.Callee == callee && x.Ordinal == ord {
						cs = x
					}
				}
				if cs == nil {
					cs = &CallSiteSpec{Callee: callee, Ordinal: ord}
					cur.Calls = append(cur.Calls, cs)
				}
				cs.HasFrame = true
				if strings.TrimSpace(rest(4)) != "nothing" {
					for _, part := range splitTop(rest(4)) {
						cl, err := parseSpecExpr(part, src)
						if err != nil {
							return err
						}
						cs.Frame = append(cs.Frame, cl)
					}
				}
				break
			}
			cl, err := parseSpecExpr(rest(4), src)
			if err != nil {
				return err
			}
			var cs *CallSiteSpec
			for _, x := range cur.Calls {
				if x.Callee == callee && x.Ordinal == ord {
					cs = x
				}
			}
			if cs == nil {
				cs = &CallSiteSpec{Callee: callee, Ordinal: ord}
				cur.Calls = append(cur.Calls, cs)
			}
			if w[3] != "assert" {
				return fmt.Errorf("%s: only `assert` is allowed at call sites", src)
			}
			cs.Asserts = append(cs.Asserts, cl)
		case "ghost":
			// ghost at unlock N: lhs = rhs
			r := rest(1)
			i := strings.Index(r, ":")
			j := strings.Index(r, "=")
			if !strings.HasPrefix(r, "at ") || i < 0 || j < i {
				return fmt.Errorf("%s: bad ghost clause", src)
			}
			at := strings.TrimSpace(r[3:i])
			asg := r[i+1:]
			j = strings.Index(asg, "=")
			lhs, err := parseSpecExpr(strings.TrimSpace(asg[:j]), src)
			if err != nil {
				return err
			}
			rhs, err := parseSpecExpr(strings.TrimSpace(asg[j+1:]), src)
			if err != nil {
				return err
			}
			cur.Ghost = append(cur.Ghost, GhostUpdate{At: at, LHS: lhs, RHS: rhs})
		case "type":
			cur = nil
			name := w[1]
			if pkg != "" && !strings.Contains(name, ".") {
				name = pkg + "." + name
			}
			ts := c.Types[name]
			if ts == nil {
				ts = &TypeSpec{Name: name, Ghost: map[string]string{}}
				c.Types[name] = ts
			}
			switch w[2] {
			case "guarded_by":
				r := rest(3)
				i := strings.Index(r, ":")
				if i < 0 {
					return fmt.Errorf("%s: guarded_by needs `mutex: fields`", src)
				}
				ts.GuardedBy = strings.TrimSpace(r[:i])
				for _, f := range strings.Split(r[i+1:], ",") {
					ts.Guarded = append(ts.Guarded, strings.TrimSpace(f))
				}
			case "atomic":
				for _, f := range strings.Split(rest(3), ",") {
					ts.Atomic = append(ts.Atomic, strings.TrimSpace(f))
				}
			case "invariant", "guarantee":
				cl, err := parseSpecExpr(rest(3), src)
				if err != nil {
					return err
				}
				if w[2] == "invariant" {
					ts.Invariants = append(ts.Invariants, cl)
				} else {
					ts.Guarantees = append(ts.Guarantees, cl)
				}
			case "ghost":
				// type T ghost name sort
				ts.Ghost[strings.TrimPrefix(w[3], "$")] = w[4]
			case "bitvector":
				ts.Bitvector = true
				bitvectorTypes[name] = true
			default:
				return fmt.Errorf("%s: unknown type clause %q", src, w[2])
			}
		case "spec":
			cur = nil
			// spec $name(a int, b string) int [= expr]
			r := rest(1)
			m := regexp.MustCompile(`^\$([A-Za-z0-9_]+)\(([^)]*)\)\s*([A-Za-z0-9]+)\s*(=\s*(.*))?$`).FindStringSubmatch(r)
			if m == nil {
				return fmt.Errorf("%s: bad spec declaration", src)
			}
			sf := &SpecFunc{Name: m[1]}
			if strings.TrimSpace(m[2]) != "" {
				for _, p := range strings.Split(m[2], ",") {
					pf := strings.Fields(p)
					if len(pf) != 2 {
						return fmt.Errorf("%s: bad spec parameter %q", src, p)
					}
					s, err := sortFromText(pf[1])
					if err != nil {
						return fmt.Errorf("%s: %v", src, err)
					}
					sf.Params = append(sf.Params, pf[0])
					sf.PSorts = append(sf.PSorts, s)
				}
			}
			s, err := sortFromText(m[3])
			if err != nil {
				return fmt.Errorf("%s: %v", src, err)
			}
			sf.Res = s
			if m[5] != "" {
				cl, err := parseSpecExpr(m[5], src)
				if err != nil {
					return err
				}
				sf.Body = &cl
			}
			if _, dup := c.Specs[sf.Name]; dup {
				return fmt.Errorf("%s: duplicate spec function $%s", src, sf.Name)
			}
			c.Specs[sf.Name] = sf
		case "package", "go:build":
		default:
			return fmt.Errorf("%s: unknown contract line %q", src, rl.text)
		}
	}
	return nil
}

func parenDepth(s string) int {
	d := 0
	inStr := false
	var qc byte
	for i := 0; i < len(s); i++ {
		ch := s[i]
		if inStr {
			if ch == '\\' {
				i++
			} else if ch == qc {
				inStr = false
			}
			continue
		}
		switch ch {
		case '"', '\'', '`':
			inStr = true
			qc = ch
		case '(', '[':
			d++
		case ')', ']':
			d--
		}
	}
	return d
}

func splitTop(s string) []string {
	var out []string
	d, start := 0, 0
	for i := 0; i < len(s); i++ {
		switch s[i] {
		case '(', '[':
			d++
		case ')', ']':
			d--
		case ',':
			if d == 0 {
				out = append(out, strings.TrimSpace(s[start:i]))
				start = i + 1
			}
		}
	}
	out = append(out, strings.TrimSpace(s[start:]))
	return out
}

func (fc *FuncContract) HasTag(t string) bool {
	for _, x := range fc.Tags {
		if x == t {
			return true
		}
	}
	return false
}
