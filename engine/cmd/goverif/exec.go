package main

// Forward symbolic execution over the loop-cut CFG of one go/ssa function (NaiveForm).

import (
	"strconv"
	"runtime"
	"os"
	"os/exec"
	"fmt"
	"go/ast"
	"go/token"
	"go/types"
	"sort"
	"strings"

	"golang.org/x/tools/go/ssa"
)

type Obligation struct {
	Name    string            `json:"name"`
	Func    string            `json:"func"`
	Kind    string            `json:"kind"`
	Desc    string            `json:"desc"`
	Pos     string            `json:"pos"`
	Code    string            `json:"code"`
	File    string            `json:"file"`
	Safety  bool              `json:"safety"`
	Cover   bool              `json:"cover"` // expect sat
	Model   map[string]string `json:"model_terms,omitempty"`
	prefix  int
	pc      string
	goal    string
	extra   []string
	Props   []string `json:"props"`
	Trivial bool     `json:"trivial"`
}

type loopInfo struct {
	head    *ssa.BasicBlock
	ordinal int
	name    string
	blocks  map[*ssa.BasicBlock]bool
	spec    *LoopSpec
	old     *State // state right after havoc+assume at the head
	calledIn map[string]bool // callees the body calls (discovered)
}

type FuncExec struct {
	curSiteFrame *CallSiteSpec
	pruned int
	clauseFaults []string // contract clauses that could not be evaluated against the current code
	havocNames map[string]bool // contract-less callees abstracted by the import-closure rule
	envWrites map[string][]string // heap key -> refs havocked at Lock (interference, not this function's writes)
	V       *Verifier
	fn      *ssa.Function
	fc      *FuncContract
	em      *Emitter
	vals    map[ssa.Value]Val
	obls    []*Obligation
	counts  map[string]int
	discard int
	writeLog map[string]bool
	writeTargets map[string]map[string]bool
	discN1 int
	cellLog  map[ssa.Value]bool
	heapInfos map[string]*heapInfo
	universeFrozen bool
	callLog        map[string]bool // callees executed while a loop body is being discovered
	curCallShort   string          // the call whose site assertions are being evaluated ...
	curCallPrev    string          // ... and whether that callee had been called before it
	freshRefs map[string]bool
	entry   *State
	loops   map[*ssa.BasicBlock]*loopInfo
	rpo     []*ssa.BasicBlock
	rpoIdx  map[*ssa.BasicBlock]int
	edgeOut map[[2]int]incoming
	returns []retRec
	captured map[ssa.Value]bool
	capturedAt map[ssa.Value][]*ssa.MakeClosure // where the closures that write the cell are created
	callOrd map[string]int
	unlockOrd int
	lockOrd int
	paramVals map[string]Val
	callStats map[string]int
	usedContracts map[string]bool
	assumptions map[string]bool
	functional bool
	curInstr ssa.Instruction
	modelTerms map[string]string
	usedCallSites map[*CallSiteSpec]bool
	guardOnly bool
	heldOnEntry map[string]bool
	lockOrds map[ssa.Instruction]int
	callNames map[ssa.Instruction]string
	callOrdStatic map[ssa.Instruction]int
	storeOrd map[ssa.Instruction]int
	mapUpdOrd map[ssa.Instruction]int
	storeField map[ssa.Instruction]string
	quantsOf map[string][]quantRec
	qfacts   []qfact
}

// qfact: an assumed clause containing universally quantified parts the engine may instantiate.
type qfact struct {
	prefix int
	pc     string
	clause string
	recs   []quantRec
}

type retRec struct {
	st      *State
	results []Val
	pos     token.Pos
	instr   ssa.Instruction
}

func (fx *FuncExec) relName() string { return fx.V.funcDisplay(fx.fn) }

// ---- obligations ------------------------------------------------------------------------------------

var safetyKinds = map[string]bool{"index": true, "slice": true, "nil": true, "typeassert": true, "divzero": true,
	"nopanic": true, "relock": true, "mapnil": true, "guard": true, "conv": true, "makeslice": true}

func (fx *FuncExec) oblige(kind string, st *State, goal string, desc string, pos token.Pos) {
	if fx.discard > 0 {
		return
	}
	if fx.functional && safetyKinds[kind] && kind != "guard" {
		return
	}
	if fx.fc != nil && len(fx.fc.Check) > 0 && (safetyKinds[kind] || kind == "pre@call") {
		ok := false
		for _, k := range fx.fc.Check {
			if k == kind {
				ok = true
			}
		}
		if !ok {
			return
		}
	}
	if fx.fc != nil && len(fx.fc.CheckOnly) > 0 && (kind == "index" || kind == "slice") {
		// `check-only a, b`: bounds obligations only for indexing/slicing of the named variables
		// (typically the input the function scans), not of auxiliary tables
		ok := false
		if b := indexedBase(fx.curInstr); b != "" {
			for _, n := range fx.fc.CheckOnly {
				if n == b {
					ok = true
				}
			}
		}
		if !ok {
			return
		}
	}
	fx.counts[kind]++
	ob := &Obligation{Kind: kind, Func: fx.relName(), Desc: desc, Safety: safetyKinds[kind],
		prefix: len(fx.em.lines), pc: st.pc, goal: goal}
	ob.Name = fmt.Sprintf("%s#%s:%d", fx.relName(), kind, fx.counts[kind])
	if pos == token.NoPos && fx.curInstr != nil {
		pos = fx.curInstr.Pos()
	}
	if pos == token.NoPos && fx.curInstr != nil {
		// some instructions have no position: use the closest earlier one in the block
		b := fx.curInstr.Block()
		for _, in := range b.Instrs {
			if in == fx.curInstr {
				break
			}
			if in.Pos() != token.NoPos {
				pos = in.Pos()
			}
		}
	}
	if pos != token.NoPos {
		p := fx.V.prog.Fset.Position(pos)
		ob.Pos = fmt.Sprintf("%s:%d", strings.TrimPrefix(p.Filename, "/repo/"), p.Line)
		ob.Code = fx.V.sourceLine(p.Filename, p.Line)
	}
	if goal == "true" {
		ob.Trivial = true
	}
	if fx.V.covers && !ob.Trivial && (kind == "step" || kind == "assert@call" || kind == "assert@store" || kind == "assert@return" || kind == "inv-keep" || kind == "dispatch") {
		// vacuity guard: the place this obligation talks about must be reachable under everything
		// assumed on the way (a stale fact in the memory model once made a back edge unreachable)
		defer fx.cover(st, "the site of "+ob.Name+" is reachable", pos)
	}
	fx.skolemize(st, ob)
	ob.prefix = len(fx.em.lines) // hint evaluation may have added definitions
	ob.Model = map[string]string{}
	for k, v := range fx.modelTerms {
		ob.Model[k] = v
	}
	fx.obls = append(fx.obls, ob)
}

// obligeClause evaluates one contract clause and makes it an obligation. A clause that cannot be
// evaluated against the current code (it names a local, a label or a field that is gone) is a
// clause-level tool fault: it is recorded, the other clauses of the function are still checked.
func (fx *FuncExec) obligeClause(kind string, st *State, env *SpecEnv, c Clause, desc string, pos token.Pos) {
	var goal string
	ok := func() (ok bool) {
		defer func() {
			if r := recover(); r != nil {
				if tl, isTL := r.(toolLimitErr); isTL {
					if fx.discard == 0 {
						fx.clauseFaults = append(fx.clauseFaults, tl.msg)
					}
					ok = false
					return
				}
				panic(r)
			}
		}()
		goal = fx.evalBool(env, c)
		return true
	}()
	if ok {
		fx.oblige(kind, st, goal, desc, pos)
	}
}

// invBool evaluates a loop invariant. Invariants are proof aids: one that no longer fits the code (it
// names a local that is gone or has another type) is neither assumed nor checked - sound, the remaining
// obligations then have to do without it - and reported as a clause that was not used.
func (fx *FuncExec) invBool(env *SpecEnv, c Clause) (goal string, ok bool) {
	defer func() {
		if r := recover(); r != nil {
			if tl, isTL := r.(toolLimitErr); isTL {
				if fx.discard == 0 {
					fx.note("loop invariant not used (does not fit the code): " + tl.msg)
				}
				goal, ok = "", false
				return
			}
			panic(r)
		}
	}()
	return fx.evalBool(env, c), true
}

// indexedBase names the variable an index/slice instruction operates on ("" if it is not a plain
// local, parameter or captured variable).
func indexedBase(in ssa.Instruction) string {
	var x ssa.Value
	switch t := in.(type) {
	case *ssa.IndexAddr:
		x = t.X
	case *ssa.Index:
		x = t.X
	case *ssa.Slice:
		x = t.X
	case *ssa.Lookup:
		x = t.X
	default:
		return ""
	}
	if u, ok := x.(*ssa.UnOp); ok {
		x = u.X
	}
	switch t := x.(type) {
	case *ssa.Alloc:
		return t.Comment
	case *ssa.Parameter:
		return t.Name()
	case *ssa.FreeVar:
		return t.Name()
	case *ssa.Global:
		return t.Name() // a package-level table
	}
	return ""
}

func (fx *FuncExec) assume(st *State, fact string) {
	fx.em.Assert(imp(st.pc, fact))
	if recs, ok := fx.quantsOf[fact]; ok && fx.discard == 0 {
		var us []quantRec
		for _, r := range recs {
			if !r.exists {
				us = append(us, r)
			}
		}
		if len(us) > 0 {
			fx.qfacts = append(fx.qfacts, qfact{prefix: len(fx.em.lines), pc: st.pc, clause: fact, recs: us})
		}
	}
}

// skolemize replaces the positively occurring universal quantifiers of a goal by fresh constants
// and instantiates the quantified assumptions made so far at those constants (and at the constants
// shifted by the contract's `inst` hints): E-matching does not solve the index arithmetic that
// re-slicing and appending introduce, so the engine supplies these instances itself. Every added
// line is a consequence of an assumption already present; the goal is replaced by an instance of
// itself over an arbitrary constant - both steps are sound.
func (fx *FuncExec) skolemize(st *State, ob *Obligation) {
	recs, ok := fx.quantsOf[ob.goal]
	if !ok && (fx.fc == nil || len(fx.fc.Inst) == 0) {
		return
	}
	var hints []string
	hintsBySort := map[string][]string{}
	if fx.fc != nil {
		env := fx.specEnv(st, fx.entry)
		if fx.curInstr != nil && fx.curInstr.Block() != nil {
			// innermost loop around the current instruction (for $idx in hints)
			for _, li := range fx.loops {
				if li.blocks[fx.curInstr.Block()] && (env.loop == nil || len(li.blocks) < len(env.loop.blocks)) {
					env.loop = li
					env.idxState = st
				}
			}
		}
		for _, h := range fx.fc.Inst {
			func() {
				defer func() { recover() }() // a hint that cannot be evaluated here is simply not used
				e2 := *env
				e2.clauseSrc = h.Src
				v := fx.evalSpec(&e2, h.Expr)
				if v.Sort == SInt {
					hints = append(hints, v.S)
				} else if v.S != "" {
					hintsBySort[string(v.Sort)] = append(hintsBySort[string(v.Sort)], v.S)
				}
			}()
		}
	}
	goal := ob.goal
	var terms []string
	var univ []quantRec
	termsBySort := map[string][]string{}
	for _, r := range recs {
		if r.sort != "" {
			continue
		}
		if r.exists {
			// an existential to prove: the hints are candidate witnesses (proving the disjunction of
			// the instances proves the existential)
			if len(hints) > 0 {
				var ds []string
				for _, h := range hints {
					ds = append(ds, strings.ReplaceAll(r.body, r.bound, h))
				}
				ds = append(ds, r.text)
				goal = strings.Replace(goal, r.text, or(ds...), 1)
			}
			continue
		}
		univ = append(univ, r)
	}
	for i, r := range recs {
		if r.sort == "" || r.exists {
			continue
		}
		sk := fmt.Sprintf("|sks%d!%d|", i, fx.em.n)
		fx.em.n++
		ob.extra = append(ob.extra, fmt.Sprintf("(declare-const %s %s)", sk, r.sort))
		goal = strings.Replace(goal, r.text, strings.ReplaceAll(r.body, r.bound, sk), 1)
		termsBySort[r.sort] = append(termsBySort[r.sort], sk)
	}
	for k, hs := range hintsBySort {
		termsBySort[k] = append(termsBySort[k], hs...)
	}
	recs = univ
	for i, r := range recs {
		sk := fmt.Sprintf("|sk%d!%d|", i, fx.em.n)
		fx.em.n++
		ob.extra = append(ob.extra, fmt.Sprintf("(declare-const %s Int)", sk))
		goal = strings.Replace(goal, r.text, strings.ReplaceAll(r.body, r.bound, sk), 1)
		terms = append(terms, sk)
		for _, h := range hints {
			terms = append(terms, "(+ "+sk+" "+h+")", "(- "+sk+" "+h+")")
		}
	}
	ob.goal = goal
	// the hints themselves are instantiation terms too (e.g. the position a loop iteration looks at)
	terms = append(terms, hints...)
	n := 0
	for _, qf := range fx.qfacts {
		if qf.prefix > ob.prefix {
			continue
		}
		for _, r := range qf.recs {
			ts := terms
			if r.sort != "" {
				ts = termsBySort[r.sort]
			}
			for _, t := range ts {
				inst := strings.Replace(qf.clause, r.text, strings.ReplaceAll(r.body, r.bound, t), 1)
				ob.extra = append(ob.extra, "(assert "+imp(qf.pc, inst)+")")
				n++
				if n > 400 {
					return
				}
			}
		}
	}
}

// ---- entry ------------------------------------------------------------------------------------------

func (fx *FuncExec) freshVal(t types.Type, prefix string, st *State) Val {
	if tup, ok := t.(*types.Tuple); ok {
		var vs []Val
		for i := 0; i < tup.Len(); i++ {
			vs = append(vs, fx.freshVal(tup.At(i).Type(), fmt.Sprintf("%s.%d", prefix, i), st))
		}
		return Val{T: t, Tup: vs}
	}
	s := fx.em.SortOf(t)
	v := Val{T: t, S: fx.em.Fresh(prefix, s), Sort: s}
	fx.typeFacts(v)
	return v
}

func (fx *FuncExec) computeCFG() {
	fn := fx.fn
	seen := map[*ssa.BasicBlock]bool{}
	var post []*ssa.BasicBlock
	var dfs func(b *ssa.BasicBlock)
	dfs = func(b *ssa.BasicBlock) {
		seen[b] = true
		for _, s := range b.Succs {
			if !seen[s] {
				dfs(s)
			}
		}
		post = append(post, b)
	}
	dfs(fn.Blocks[0])
	fx.rpo = nil
	fx.rpoIdx = map[*ssa.BasicBlock]int{}
	for i := len(post) - 1; i >= 0; i-- {
		fx.rpoIdx[post[i]] = len(fx.rpo)
		fx.rpo = append(fx.rpo, post[i])
	}
	// loops: back edges u->h with h dominating u
	fx.loops = map[*ssa.BasicBlock]*loopInfo{}
	for _, u := range fx.rpo {
		for _, h := range u.Succs {
			if h.Dominates(u) {
				li := fx.loops[h]
				if li == nil {
					li = &loopInfo{head: h, blocks: map[*ssa.BasicBlock]bool{h: true}}
					fx.loops[h] = li
				}
				// natural loop: nodes reaching u without passing h
				var stack []*ssa.BasicBlock
				if !li.blocks[u] {
					li.blocks[u] = true
					stack = append(stack, u)
				}
				for len(stack) > 0 {
					x := stack[len(stack)-1]
					stack = stack[:len(stack)-1]
					for _, p := range x.Preds {
						if !li.blocks[p] && seen[p] {
							li.blocks[p] = true
							stack = append(stack, p)
						}
					}
				}
			} else if fx.rpoIdx[h] <= fx.rpoIdx[u] && seen[h] {
				panic(toolLimit("irreducible control flow in %s (edge %d->%d)", fx.relName(), u.Index, h.Index))
			}
		}
	}
	var heads []*ssa.BasicBlock
	for h := range fx.loops {
		heads = append(heads, h)
	}
	sort.Slice(heads, func(i, j int) bool { return heads[i].Index < heads[j].Index })
	for i, h := range heads {
		li := fx.loops[h]
		li.ordinal = i + 1
		li.name = fmt.Sprintf("%d", i+1)
		if fx.fc != nil {
			li.spec = fx.fc.Loops[li.name]
			// label form: "label.NAME" block comments
			if li.spec == nil && h.Comment != "" && fx.fc.Loops[h.Comment] != nil {
				li.spec = fx.fc.Loops[h.Comment] // a loop formed by a label: named after the label
			}
			if li.spec == nil && strings.HasPrefix(h.Comment, "label.") {
				li.spec = fx.fc.Loops[strings.TrimPrefix(h.Comment, "label.")]
			}
		}
	}
	if fx.fc != nil {
		for name := range fx.fc.Loops {
			found := false
			for _, li := range fx.loops {
				if li.spec == fx.fc.Loops[name] {
					found = true
				}
			}
			if !found {
				// invariants and variants are proof aids: if the loop they helped with is gone they are
				// moot. Step contracts carry the property: without their loop the check is undecided.
				if len(fx.fc.Loops[name].Steps) > 0 {
					panic(toolLimit("contract of %s has step contracts for loop %q but the function has %d loops", fx.relName(), name, len(heads)))
				}
				fx.note(fmt.Sprintf("stale contract clauses ignored: loop %q of %s no longer exists", name, fx.relName()))
			}
		}
	}
}

func (fx *FuncExec) isBackEdge(u, h *ssa.BasicBlock) bool {
	_, ok := fx.loops[h]
	return ok && h.Dominates(u)
}

// Run verifies the function against its contract and returns the obligations.
func (fx *FuncExec) Run() {
	fx.computeCFG()
	fx.findCaptured()
	fx.staticCallOrdinals()
	// pass 0: discover the heap key universe
	fx.discard++
	snap := len(fx.em.lines)
	fx.runBody()
	fx.em.lines = fx.em.lines[:snap]
	fx.discard--
	fx.universeFrozen = true
	fx.returns = nil
	fx.callOrd = map[string]int{}
	fx.unlockOrd, fx.lockOrd = 0, 0
	// pass 1
	fx.runBody()
}

func (fx *FuncExec) runBody() {
	fn := fx.fn
	st := &State{pc: "true", cells: map[ssa.Value]Val{}, heaps: map[string]string{}, locks: map[string]string{},
		lockInfo: map[string]*lockRec{}, lastSeen: map[string]*State{}, labels: map[string]*State{}}
	if fx.universeFrozen {
		for k := range fx.heapInfos {
			st.heaps[k] = q(k)
		}
	}
	fx.callOrd = map[string]int{}
	fx.unlockOrd, fx.lockOrd = 0, 0
	fx.envWrites = nil
	fx.paramVals = map[string]Val{}
	fx.modelTerms = map[string]string{}
	top := fx.heapTerm(st, topKey, "Int", nil)
	fx.em.Assert(fmt.Sprintf("(>= %s 0)", top))
	for _, p := range fn.Params {
		s := fx.em.SortOf(p.Type())
		name := q("p:" + p.Name())
		fx.em.DeclareBase("p:"+p.Name(), fmt.Sprintf("(declare-const %s %s)", name, s))
		v := Val{T: p.Type(), S: name, Sort: s}
		fx.typeFacts(v)
		fx.refFacts(st, v)
		_ = top
		fx.vals[p] = v
		fx.paramVals[p.Name()] = v
		fx.modelTerms[p.Name()] = name
		if s == SSlice {
			fx.modelTerms["len("+p.Name()+")"] = "(s.len " + name + ")"
		}
		if s == SStr {
			fx.modelTerms["len("+p.Name()+")"] = "(gs.len " + name + ")"
		}
	}
	for _, fv := range fn.FreeVars {
		// free variables are addresses of captured cells
		pt := fv.Type().Underlying().(*types.Pointer)
		fx.vals[fv] = Val{T: fv.Type(), Loc: &Loc{Kind: LCell, Cell: fv, T: pt.Elem()}}
	}
	fx.entry = st.Clone()
	// preconditions
	if fx.fc != nil {
		env := fx.specEnv(st, st)
		for _, r := range fx.fc.Requires {
			// `requires held(x.mutex)`: the lock is held on entry (and stays the caller's to release)
			if call, ok := r.Expr.(*ast.CallExpr); ok {
				if id, ok := call.Fun.(*ast.Ident); ok && id.Name == "held" {
					l := fx.evalLoc(env, call.Args[0])
					key := fx.canonKey(fx.locString(l))
					st.locks[key] = "true"
					fx.heldOnEntry[key] = true
					continue
				}
			}
			t := fx.evalBool(env, r)
			fx.assume(st, t)
		}
	}
	fx.entry = st.Clone()
	if fx.V.covers && fx.fc != nil && len(fx.fc.Requires) > 0 {
		fx.cover(st, "the preconditions are satisfiable", fx.fn.Pos())
	}
	fx.edgeOut = map[[2]int]incoming{}
	all := map[*ssa.BasicBlock]bool{}
	for _, b := range fx.rpo {
		all[b] = true
	}
	fx.execBlocks(fx.rpo, all, fn.Blocks[0], st)
	fx.finish()
}

func isRefType(t types.Type) bool {
	switch t.Underlying().(type) {
	case *types.Pointer, *types.Map, *types.Chan:
		return true
	}
	return false
}

func (fx *FuncExec) execBlocks(order []*ssa.BasicBlock, in map[*ssa.BasicBlock]bool, start *ssa.BasicBlock, startState *State) {
	for _, b := range order {
		if !in[b] {
			continue
		}
		var st *State
		if b == start {
			st = startState
		} else {
			var ins []incoming
			for _, p := range b.Preds {
				if !in[p] || fx.isBackEdge(p, b) {
					continue
				}
				for si, s := range p.Succs {
					if s == b {
						if e, ok := fx.edgeOut[[2]int{p.Index, si}]; ok {
							ins = append(ins, e)
						}
					}
				}
			}
			if len(ins) == 0 {
				continue
			}
			st = fx.Merge(ins, fmt.Sprintf("b%d", b.Index))
		}
		if li, ok := fx.loops[b]; ok && fx.discard == 0 {
			st = fx.loopHead(li, st)
		}
		fx.execBlock(b, st)
	}
}

// loopHead: assert invariant, havoc what the loop writes, assume invariant.
func (fx *FuncExec) loopHead(li *loopInfo, pre *State) *State {
	fx.curInstr = li.head.Instrs[0]
	var pos token.Pos
	for _, in := range li.head.Instrs {
		if in.Pos() != token.NoPos {
			pos = in.Pos()
			break
		}
	}
	// old@preN(e): the state in which loop N was entered (before its first iteration)
	pre.labels["pre"+li.name] = pre.Clone()
	if li.spec != nil {
		env := fx.specEnv(pre, fx.entry)
		env.loop = li
		for _, inv := range li.spec.Invariants {
			if g, ok := fx.invBool(env, inv); ok {
				fx.oblige("inv-init", pre, g, fmt.Sprintf("loop %s invariant holds on entry: %s", li.name, inv.Text), pos)
			}
		}
	}
	// ---- the loop frame -----------------------------------------------------------------------------
	// Phase 1 (discard mode): which cells and heap keys does the body write at all?
	wl1, _, cl := fx.discoverLoop(li, pre.Clone(), false)
	snap := len(fx.em.lines)
	n1 := fx.em.n
	// Phase 2 (discard mode): run the body again from a state in which everything written is
	// arbitrary, logging the *location* of every heap write. A location whose term only depends on
	// symbols that existed before the loop is the same location in every iteration.
	cons := fx.havocForLoop(li, pre, wl1, cl, nil, n1)
	savedN1 := fx.discN1
	fx.discN1 = n1
	wl2, wt, cl2 := fx.discoverLoop(li, cons, true)
	fx.discN1 = savedN1
	for k := range wl2 {
		wl1[k] = true
	}
	for c := range cl2 {
		cl[c] = true
	}
	stable := map[string][]string{}
	for k, ts := range wt {
		if wl1[k] && wl2[k] {
			continue // some write of unknown location
		}
		ok := true
		var out []string
		var names []string
		for t := range ts {
			names = append(names, t)
		}
		sort.Strings(names)
		for _, t := range names {
			x, good := fx.em.expandStable(t, n1)
			if !good {
				ok = false
				break
			}
			out = append(out, x)
		}
		if ok && !wl2[k] {
			stable[k] = out
			wl1[k] = true
		}
	}
	fx.em.lines = fx.em.lines[:snap]
	if fx.writeLog != nil {
		for k := range wl1 {
			fx.writeLog[k] = true // an enclosing loop sees this loop's writes as location-unknown
		}
	}
	if fx.cellLog != nil {
		for k := range cl {
			fx.cellLog[k] = true
		}
	}
	st := fx.havocForLoop(li, pre, wl1, cl, stable, n1)
	if li.spec != nil {
		env := fx.specEnv(st, fx.entry)
		env.loop = li
		for _, inv := range li.spec.Invariants {
			if g, ok := fx.invBool(env, inv); ok {
				fx.assume(st, g)
			}
		}
	}
	if fx.V.covers && li.spec != nil && len(li.spec.Invariants) > 0 {
		fx.cover(st, "loop "+li.name+": the invariant is satisfiable at the loop head", pos)
	}
	st.calledIter = map[string]string{} // nothing has been called in this iteration yet
	li.old = st.Clone()
	st.labels["loop"+li.name] = li.old
	return st
}

func cellName(c ssa.Value) string {
	if a, ok := c.(*ssa.Alloc); ok && a.Comment != "" {
		return a.Comment
	}
	return c.Name()
}

func (fx *FuncExec) backEdge(li *loopInfo, st *State) {
	if fx.discard > 0 {
		// discovery: the step clauses are evaluated for the heaps they mention only (a field that
		// only a contract names, e.g. after a change to the code, must exist in the real pass)
		if li.spec != nil {
			oldSt := li.old
			if oldSt == nil {
				oldSt = st // only the heaps named matter here
			}
			envStep := fx.specEnv(st, oldSt)
			envStep.loop = li
			envStep.idxState = st
			envStep.oldCells = oldSt
			for _, sc := range li.spec.Steps {
				func() {
					defer func() {
						if r := recover(); r != nil {
							if tl, isTL := r.(toolLimitErr); !isTL {
								panic(r)
							} else if os.Getenv("VERIF_DEBUG") != "" {
								fmt.Fprintln(os.Stderr, "discovery step clause:", tl.msg)
							}
						}
					}()
					fx.evalBool(envStep, sc)
				}()
			}
		}
		return
	}
	var pos token.Pos
	for _, in := range li.head.Instrs {
		if in.Pos() != token.NoPos {
			pos = in.Pos()
			break
		}
	}
	if li.spec == nil {
		return
	}
	env := fx.specEnv(st, fx.entry)
	env.loop = li
	for _, inv := range li.spec.Invariants {
		if g, ok := fx.invBool(env, inv); ok {
			fx.oblige("inv-keep", st, g, fmt.Sprintf("loop %s invariant preserved: %s", li.name, inv.Text), pos)
		}
	}
	envStep := fx.specEnv(st, li.old)
	envStep.loop = li
	envStep.idxState = st
	envStep.oldCells = li.old
	for _, sc := range li.spec.Steps {
		fx.oblige("step", st, fx.evalBool(envStep, sc), fmt.Sprintf("loop %s step contract: %s", li.name, sc.Text), pos)
	}
	if d := li.spec.Decreases; d != nil {
		envOld := fx.specEnv(li.old, fx.entry)
		envOld.loop = li
		v0 := fx.evalSpec(envOld, d.Expr)
		v1 := fx.evalSpec(env, d.Expr)
		fx.oblige("decreases", st, and(fmt.Sprintf("(<= 0 %s)", v0.S), fmt.Sprintf("(< %s %s)", v1.S, v0.S)),
			fmt.Sprintf("loop %s variant decreases and is bounded: %s", li.name, d.Text), pos)
	}
}

func (fx *FuncExec) execBlock(b *ssa.BasicBlock, st *State) {
	for _, in := range b.Instrs {
		fx.curInstr = in
		if st.dead {
			return
		}
		fx.execInstr(st, in)
	}
}

func (fx *FuncExec) setEdge(b *ssa.BasicBlock, si int, st *State, cond string) {
	succ := b.Succs[si]
	c := fx.em.Define(fmt.Sprintf("e%d_%d", b.Index, succ.Index), SBool, and(st.pc, cond))
	if fx.fc != nil && fx.fc.Prune && fx.discard == 0 && cond != "true" && strings.HasPrefix(succ.Comment, "switch.body") && fx.edgeInfeasible(st, c) {
		// `prune`: the edge is refuted by the solver under everything assumed so far - dead code for
		// this contract's precondition/invariants; not following it is sound and keeps queries small
		fx.pruned++
		fx.assumptions[fmt.Sprintf("prune: %d control-flow edges refuted by z3 under the contract's assumptions were not followed", fx.pruned)] = true
		if fx.pruned > 1 {
			delete(fx.assumptions, fmt.Sprintf("prune: %d control-flow edges refuted by z3 under the contract's assumptions were not followed", fx.pruned-1))
		}
		return
	}
	if fx.isBackEdge(b, succ) {
		n := st.Clone()
		n.pc = c
		fx.backEdge(fx.loops[succ], n)
		return
	}
	fx.edgeOut[[2]int{b.Index, si}] = incoming{st: st, cond: c}
}

// edgeInfeasible asks z3 whether the edge condition is unsatisfiable under the assertions made so far.
func (fx *FuncExec) edgeInfeasible(st *State, c string) bool {
	// the quantified assumptions in scope are instantiated at the contract's hints, as for goals
	ob := &Obligation{goal: "false", pc: c, prefix: len(fx.em.lines)}
	fx.skolemize(st, ob)
	var b strings.Builder
	b.WriteString(fx.em.Prelude())
	for _, l := range fx.em.lines {
		if strings.HasPrefix(l, "(assert") && (strings.Contains(l, "(forall ") || strings.Contains(l, "(exists ")) {
			continue // quantifier-free relaxation: fewer assumptions, so `unsat` stays sound
		}
		b.WriteString(l)
		b.WriteByte('\n')
	}
	for _, l := range ob.extra {
		b.WriteString(l)
		b.WriteByte('\n')
	}
	b.WriteString("(assert " + c + ")\n(check-sat)\n")
	f, err := os.CreateTemp("", "goverif-prune-*.smt2")
	if err != nil {
		return false
	}
	defer os.Remove(f.Name())
	f.WriteString(b.String())
	f.Close()
	// wall-clock budget stretched when the machine is oversubscribed (as the driver does)
	budget := 2
	if b, err := os.ReadFile("/proc/loadavg"); err == nil {
		var l1 float64
		fmt.Sscanf(string(b), "%f", &l1)
		if f := l1 / float64(runtime.NumCPU()); f > 1 {
			if f > 8 {
				f = 8
			}
			budget = int(2*f + 0.5)
		}
	}
	// both solvers, first `unsat` wins (they differ widely on these queries)
	type ans struct{ unsat bool }
	ch := make(chan ans, 2)
	cmds := []*exec.Cmd{
		exec.Command("cvc5", fmt.Sprintf("--tlimit=%d", budget*1000), f.Name()),
		exec.Command("z3-new", fmt.Sprintf("-T:%d", budget), f.Name()),
	}
	for _, c := range cmds {
		go func(c *exec.Cmd) {
			out, _ := c.Output()
			ch <- ans{strings.HasPrefix(strings.TrimSpace(string(out)), "unsat")}
		}(c)
	}
	res := false
	for range cmds {
		if a := <-ch; a.unsat {
			res = true
			break
		}
	}
	for _, c := range cmds {
		if c.Process != nil {
			c.Process.Kill()
		}
	}
	return res
}

// ---- values -----------------------------------------------------------------------------------------

func (fx *FuncExec) val(st *State, v ssa.Value) Val {
	switch x := v.(type) {
	case *ssa.Const:
		cv, err := fx.em.ConstVal(x.Value, x.Type())
		if err != nil {
			panic(toolLimit("%v", err))
		}
		return cv
	case *ssa.Function:
		return Val{T: x.Type(), Fn: x}
	case *ssa.Builtin:
		return Val{T: x.Type(), Bi: x}
	case *ssa.Global:
		pt := x.Type().Underlying().(*types.Pointer)
		return Val{T: x.Type(), Loc: &Loc{Kind: LGlobal, Global: x, T: pt.Elem()}}
	}
	if r, ok := fx.vals[v]; ok {
		return r
	}
	panic(toolLimit("value %s (%T) used before definition in %s", v.Name(), v, fx.relName()))
}

func (fx *FuncExec) def(v ssa.Value, r Val) {
	if r.S != "" && !isAtom(r.S) {
		r.S = fx.em.Define(fx.fn.Name()+"."+v.Name(), r.Sort, r.S)
	}
	fx.vals[v] = r
}

func (fx *FuncExec) findCaptured() {
	fx.captured = map[ssa.Value]bool{}
	for _, b := range fx.fn.Blocks {
		for _, in := range b.Instrs {
			if mc, ok := in.(*ssa.MakeClosure); ok {
				cf := mc.Fn.(*ssa.Function)
				for i, bv := range mc.Bindings {
					// a captured variable can only change behind our back if some closure writes it
					if i < len(cf.FreeVars) && freeVarWritten(cf.FreeVars[i], 0) {
						fx.captured[bv] = true
						if fx.capturedAt == nil {
							fx.capturedAt = map[ssa.Value][]*ssa.MakeClosure{}
						}
						fx.capturedAt[bv] = append(fx.capturedAt[bv], mc)
					}
				}
			}
		}
	}
}

// mayFollow: can instruction in execute after the closure mc was created? (same block later, or a block
// reachable from mc's block). Before that no callee can hold the closure, so it cannot write the cell.
func (fx *FuncExec) mayFollow(mc *ssa.MakeClosure, in ssa.Instruction) bool {
	if in == nil || in.Block() == nil {
		return true
	}
	if in.Block() == mc.Block() {
		for _, x := range mc.Block().Instrs {
			if x == ssa.Instruction(mc) {
				return true // mc comes first
			}
			if x == in {
				break
			}
		}
	}
	seen := map[*ssa.BasicBlock]bool{}
	work := append([]*ssa.BasicBlock{}, mc.Block().Succs...)
	for len(work) > 0 {
		b := work[len(work)-1]
		work = work[:len(work)-1]
		if seen[b] {
			continue
		}
		seen[b] = true
		if b == in.Block() {
			return true
		}
		work = append(work, b.Succs...)
	}
	return false
}

// allocKind decides how a local is represented.
func (fx *FuncExec) allocEscapes(a *ssa.Alloc) bool {
	for _, r := range *a.Referrers() {
		switch x := r.(type) {
		case *ssa.Store:
			if x.Addr != a {
				return true // address stored somewhere
			}
		case *ssa.UnOp:
		case *ssa.DebugRef:
		case *ssa.MakeClosure:
		default:
			return true
		}
	}
	return false
}

func (fx *FuncExec) execInstr(st *State, in ssa.Instruction) {
	switch x := in.(type) {
	case *ssa.Alloc:
		fx.execAlloc(st, x)
	case *ssa.Store:
		addr := fx.val(st, x.Addr)
		v := fx.val(st, x.Val)
		fx.checkGuard(st, addr, x.Pos(), "write")
		fx.nilCheckPtr(st, addr, "store through nil pointer")
		fx.StoreThrough(st, addr, v)
		fx.afterStore(st, x)
	case *ssa.UnOp:
		fx.execUnOp(st, x)
	case *ssa.BinOp:
		a, b := fx.val(st, x.X), fx.val(st, x.Y)
		fx.def(x, fx.binop(st, x.Op, a, b, x.Type(), true))
	case *ssa.FieldAddr:
		base := fx.val(st, x.X)
		pt := x.X.Type().Underlying().(*types.Pointer)
		sty := pt.Elem().Underlying().(*types.Struct)
		ft := sty.Field(x.Field).Type()
		if base.Loc != nil {
			fx.vals[x] = Val{T: x.Type(), Loc: &Loc{Kind: LSub, Parent: base.Loc, Field: x.Field, T: ft}}
		} else {
			fx.oblige("nil", st, not(eq(base.S, "0")), fmt.Sprintf("nil pointer dereference: field %s of %s", sty.Field(x.Field).Name(), typeKey(pt.Elem())), x.Pos())
			fx.vals[x] = Val{T: x.Type(), Loc: &Loc{Kind: LField, Ref: base.S, Owner: pt.Elem(), OwnerS: sty, Field: x.Field, T: ft}}
		}
	case *ssa.Field:
		base := fx.val(st, x.X)
		sty := x.X.Type().Underlying().(*types.Struct)
		fx.def(x, Val{T: x.Type(), Sort: fx.em.SortOf(x.Type()), S: fmt.Sprintf("(%s %s)", fx.em.fieldSel(base.Sort, sty, x.Field), base.S)})
	case *ssa.IndexAddr:
		fx.execIndexAddr(st, x)
	case *ssa.Index:
		base := fx.val(st, x.X)
		idx := fx.val(st, x.Index)
		if base.Sort != SStr {
			panic(toolLimit("array value indexing"))
		}
		fx.oblige("index", st, and(fmt.Sprintf("(<= 0 %s)", idx.S), fmt.Sprintf("(< %s (gs.len %s))", idx.S, base.S)), "string index out of range", x.Pos())
		fx.def(x, Val{T: x.Type(), Sort: SInt, S: fmt.Sprintf("(gs.at %s %s)", base.S, idx.S)})
	case *ssa.Lookup:
		fx.execLookup(st, x)
	case *ssa.Slice:
		fx.execSlice(st, x)
	case *ssa.MakeSlice:
		ln, cp := fx.val(st, x.Len), fx.val(st, x.Cap)
		fx.oblige("makeslice", st, and(fmt.Sprintf("(<= 0 %s)", ln.S), fmt.Sprintf("(<= %s %s)", ln.S, cp.S)), "make: len out of range", x.Pos())
		el := x.Type().Underlying().(*types.Slice).Elem()
		arr := fx.NewRef(st, "arr")
		es := fx.em.SortOf(el)
		key := elemKey(el)
		h := fx.heapTerm(st, key, arr2Sort(es), el)
		st.heaps[key] = fx.em.DefineRaw(key, arr2Sort(es), sto(h, arr, fmt.Sprintf("((as const %s) %s)", arrSort(es), fx.em.Zero(el))))
		fx.logWriteAt(key, arr)
		fx.def(x, Val{T: x.Type(), Sort: SSlice, S: fmt.Sprintf("(mkSlice %s 0 %s %s)", arr, ln.S, cp.S)})
	case *ssa.MakeMap:
		r := fx.NewRef(st, "map")
		m := x.Type().Underlying().(*types.Map)
		dk, _ := mapKeys(m)
		ks := fx.em.SortOf(m.Key())
		h := fx.heapTerm(st, dk, fmt.Sprintf("(Array Int (Array %s Bool))", ks), m)
		st.heaps[dk] = fx.em.DefineRaw(dk, fx.heapInfos[dk].sortText, sto(h, r, fmt.Sprintf("((as const (Array %s Bool)) false)", ks)))
		fx.logWriteAt(dk, r)
		fx.assume(st, eq(fx.mapCard(m, fmt.Sprintf("((as const (Array %s Bool)) false)", ks)), "0"))
		fx.def(x, Val{T: x.Type(), Sort: SInt, S: r})
	case *ssa.MakeChan:
		fx.def(x, Val{T: x.Type(), Sort: SInt, S: fx.NewRef(st, "chan")})
	case *ssa.MakeInterface:
		v := fx.val(st, x.X)
		if v.S == "" {
			v = Val{T: v.T, S: fx.em.Fresh("opaque", SInt), Sort: SInt}
		}
		if v.Sort == SIface { // type parameter values are already interface-shaped
			fx.def(x, Val{T: x.Type(), Sort: SIface, S: v.S})
			break
		}
		tag := fx.em.Tag(x.X.Type())
		fx.def(x, Val{T: x.Type(), Sort: SIface, S: fmt.Sprintf("(mkIface %d %s)", tag, fx.em.Box(v))})
	case *ssa.MakeClosure:
		fnv := x.Fn.(*ssa.Function)
		var binds []Val
		for _, b := range x.Bindings {
			binds = append(binds, fx.val(st, b))
		}
		fx.vals[x] = Val{T: x.Type(), Fn: fnv, Bind: binds}
	case *ssa.ChangeType:
		v := fx.val(st, x.X)
		v.T = x.Type()
		if v.S != "" {
			ns := fx.em.SortOf(x.Type())
			if ns != v.Sort {
				v = fx.convertSort(v, ns, x.Type())
			}
		}
		fx.vals[x] = v
	case *ssa.ChangeInterface:
		v := fx.val(st, x.X)
		v.T = x.Type()
		fx.vals[x] = v
	case *ssa.Convert:
		fx.execConvert(st, x)
	case *ssa.TypeAssert:
		fx.execTypeAssert(st, x)
	case *ssa.Extract:
		t := fx.val(st, x.Tuple)
		if t.Tup == nil {
			panic(toolLimit("extract from non-tuple"))
		}
		fx.vals[x] = t.Tup[x.Index]
	case *ssa.Phi:
		fx.execPhi(st, x)
	case *ssa.Call:
		r := fx.execCall(st, x, x.Common(), false)
		fx.vals[x] = r
	case *ssa.Go:
		fx.note("A4: goroutine started with `go` is not interleaved; only lock-protected state is assumed to change concurrently")
		fx.execGo(st, x)
	case *ssa.Defer:
		st.defers = append(st.defers, deferRec{d: x, cond: "true"})
	case *ssa.RunDefers:
		ds := st.defers
		st.defers = nil
		for i := len(ds) - 1; i >= 0; i-- {
			d := ds[i]
			fx.curInstr = d.d
			if d.cond == "true" {
				fx.execCall(st, d.d, d.d.Common(), true)
				continue
			}
			// registered on some paths only: run it on a copy under that condition and merge
			with := st.Clone()
			with.pc = and(st.pc, d.cond)
			fx.execCall(with, d.d, d.d.Common(), true)
			without := st.Clone()
			without.pc = and(st.pc, not(d.cond))
			m := fx.Merge([]incoming{{st: with, cond: with.pc}, {st: without, cond: without.pc}}, "defer")
			*st = *m
		}
		fx.curInstr = in
	case *ssa.Range:
		fx.vals[x] = fx.val(st, x.X)
	case *ssa.Next:
		fx.execNext(st, x)
	case *ssa.Select:
		fx.execSelect(st, x)
	case *ssa.Send:
		fx.note("channel send treated as a no-op (A4)")
	case *ssa.MapUpdate:
		fx.execMapUpdate(st, x)
	case *ssa.If:
		c := fx.val(st, x.Cond)
		b := x.Block()
		fx.setEdge(b, 0, st, c.S)
		fx.setEdge(b, 1, st, not(c.S))
	case *ssa.Jump:
		fx.setEdge(x.Block(), 0, st, "true")
	case *ssa.Return:
		var rs []Val
		for _, r := range x.Results {
			rs = append(rs, fx.val(st, r))
		}
		fx.returns = append(fx.returns, retRec{st: st.Clone(), results: rs, pos: x.Pos(), instr: x})
	case *ssa.Panic:
		fx.oblige("nopanic", st, "false", "explicit panic() reachable", x.Pos())
		st.dead = true
	case *ssa.DebugRef:
	default:
		panic(toolLimit("unsupported SSA instruction %T in %s", in, fx.relName()))
	}
}

func (fx *FuncExec) note(s string) { fx.assumptions[s] = true }

func (fx *FuncExec) execAlloc(st *State, a *ssa.Alloc) {
	pt := a.Type().Underlying().(*types.Pointer)
	el := pt.Elem()
	if strings.HasPrefix(typeKey(el), "$ssa.") || a.Comment == "defer$stack" {
		fx.vals[a] = Val{T: a.Type(), Loc: &Loc{Kind: LCell, Cell: a, T: el}}
		st.cells[a] = Val{T: el, S: "0", Sort: SInt}
		return
	}
	switch u := el.Underlying().(type) {
	case *types.Struct:
		r := fx.NewRef(st, "obj")
		for i := 0; i < u.NumFields(); i++ {
			key, h := fx.fieldHeap(st, el, u, i)
			fs := fx.em.SortOf(u.Field(i).Type())
			st.heaps[key] = fx.em.DefineRaw(key, arrSort(fs), sto(h, r, fx.em.Zero(u.Field(i).Type())))
			fx.logWriteAt(key, r)
		}
		fx.vals[a] = Val{T: a.Type(), S: r, Sort: SInt}
		return
	case *types.Array:
		arr := fx.NewRef(st, "arr")
		es := fx.em.SortOf(u.Elem())
		key := elemKey(u.Elem())
		h := fx.heapTerm(st, key, arr2Sort(es), u.Elem())
		st.heaps[key] = fx.em.DefineRaw(key, arr2Sort(es), sto(h, arr, fmt.Sprintf("((as const %s) %s)", arrSort(es), fx.em.Zero(u.Elem()))))
		fx.logWriteAt(key, arr)
		fx.vals[a] = Val{T: a.Type(), S: arr, Sort: SInt}
		return
	}
	if fx.allocEscapes(a) {
		// escaping scalar local: a cell in the pointer heap
		r := fx.NewRef(st, "cell")
		p := Val{T: a.Type(), S: r, Sort: SInt}
		fx.vals[a] = p
		fx.StoreThrough(st, p, Val{T: el, S: fx.em.Zero(el), Sort: fx.em.SortOf(el)})
		return
	}
	fx.vals[a] = Val{T: a.Type(), Loc: &Loc{Kind: LCell, Cell: a, T: el}}
	st.cells[a] = Val{T: el, S: fx.em.Zero(el), Sort: fx.em.SortOf(el)}
	if fx.cellLog != nil {
		// a cell allocated inside a loop body is fresh every iteration; not part of the loop frame
	}
}

func (fx *FuncExec) nilCheckPtr(st *State, p Val, what string) {
	if p.Loc != nil {
		return
	}
	fx.oblige("nil", st, not(eq(p.S, "0")), what, token.NoPos)
}

func (fx *FuncExec) execUnOp(st *State, x *ssa.UnOp) {
	v := fx.val(st, x.X)
	switch x.Op {
	case token.MUL:
		fx.checkGuard(st, v, x.Pos(), "read")
		fx.nilCheckPtr(st, v, "load through nil pointer")
		r := fx.Deref(st, v)
		fx.refFacts(st, r)
		if r.S != "" {
			fx.def(x, r)
		} else {
			fx.vals[x] = r
		}
	case token.NOT:
		fx.def(x, Val{T: x.Type(), Sort: SBool, S: not(v.S)})
	case token.SUB:
		if v.Sort == SF64 {
			fx.def(x, Val{T: x.Type(), Sort: SF64, S: "(fp.neg " + v.S + ")"})
		} else {
			fx.def(x, Val{T: x.Type(), Sort: SInt, S: "(- " + v.S + ")"})
		}
	case token.XOR:
		if v.Sort == SBV {
			fx.def(x, Val{T: x.Type(), Sort: SBV, S: "(bvnot " + v.S + ")"})
		} else {
			fx.def(x, Val{T: x.Type(), Sort: SInt, S: "(- (- " + v.S + ") 1)"})
		}
	case token.ARROW:
		// channel receive: arbitrary value
		r := fx.freshVal(x.Type(), "recv", st)
		if x.CommaOk {
			tup := x.Type().(*types.Tuple)
			r = Val{T: x.Type(), Tup: []Val{fx.freshVal(tup.At(0).Type(), "recv", st), fx.freshVal(tup.At(1).Type(), "recvok", st)}}
		}
		fx.vals[x] = r
		fx.note("channel receive yields an arbitrary value (A4)")
	default:
		panic(toolLimit("unary operator %v", x.Op))
	}
}

func (fx *FuncExec) convertSort(v Val, ns Sort, t types.Type) Val {
	switch {
	case v.Sort == SInt && ns == SBV:
		return Val{T: t, Sort: SBV, S: fmt.Sprintf("((_ int2bv 64) %s)", v.S)}
	case v.Sort == SBV && ns == SInt:
		return Val{T: t, Sort: SInt, S: fmt.Sprintf("(bv2nat %s)", v.S)}
	}
	panic(toolLimit("conversion between sorts %s -> %s", v.Sort, ns))
}

func (fx *FuncExec) execIndexAddr(st *State, x *ssa.IndexAddr) {
	base := fx.val(st, x.X)
	idx := fx.val(st, x.Index)
	switch t := x.X.Type().Underlying().(type) {
	case *types.Slice:
		fx.oblige("index", st, and(fmt.Sprintf("(<= 0 %s)", idx.S), fmt.Sprintf("(< %s (s.len %s))", idx.S, base.S)),
			"index out of range", x.Pos())
		fx.vals[x] = Val{T: x.Type(), Loc: &Loc{Kind: LElem, Arr: "(s.arr " + base.S + ")", Idx: add("(s.off "+base.S+")", idx.S), T: t.Elem()}}
	case *types.Pointer:
		at := t.Elem().Underlying().(*types.Array)
		fx.oblige("index", st, and(fmt.Sprintf("(<= 0 %s)", idx.S), fmt.Sprintf("(< %s %d)", idx.S, at.Len())), "array index out of range", x.Pos())
		if base.Loc != nil {
			panic(toolLimit("index into array held in a struct field"))
		}
		fx.vals[x] = Val{T: x.Type(), Loc: &Loc{Kind: LElem, Arr: base.S, Idx: idx.S, T: at.Elem()}}
	default:
		panic(toolLimit("IndexAddr on %v", x.X.Type()))
	}
}

// mapCard is the length of a map: the cardinality of its current domain set (an uninterpreted function
// of the domain array, so it changes whenever the contents may have changed).
func (fx *FuncExec) mapCard(m *types.Map, dom string) string {
	ks := string(fx.em.SortOf(m.Key()))
	fn := "map.card_" + strings.NewReplacer("(", "", ")", "", " ", "_").Replace(ks)
	fx.em.DeclareBase(fn, fmt.Sprintf("(declare-fun %s ((Array %s Bool)) Int)\n(assert (forall ((d (Array %s Bool))) (! (>= (%s d) 0) :pattern ((%s d)))))", fn, ks, ks, fn, fn))
	return fmt.Sprintf("(%s %s)", fn, dom)
}

// mapLen: len(m) in state st.
func (fx *FuncExec) mapLen(st *State, mv Val) string {
	m := mv.T.Underlying().(*types.Map)
	_, _, dh, _ := fx.mapHeaps(st, m)
	return ite(eq(mv.S, "0"), "0", fx.mapCard(m, sel(dh, mv.S)))
}

func (fx *FuncExec) mapHeaps(st *State, m *types.Map) (dk, vk, dh, vh string) {
	dk, vk = mapKeys(m)
	ks, vs := fx.em.SortOf(m.Key()), fx.em.SortOf(m.Elem())
	dh = fx.heapTerm(st, dk, fmt.Sprintf("(Array Int (Array %s Bool))", ks), m)
	vh = fx.heapTerm(st, vk, fmt.Sprintf("(Array Int (Array %s %s))", ks, vs), m)
	return
}

func (fx *FuncExec) execLookup(st *State, x *ssa.Lookup) {
	base := fx.val(st, x.X)
	idx := fx.val(st, x.Index)
	if base.Sort == SStr {
		fx.oblige("index", st, and(fmt.Sprintf("(<= 0 %s)", idx.S), fmt.Sprintf("(< %s (gs.len %s))", idx.S, base.S)), "string index out of range", x.Pos())
		fx.def(x, Val{T: x.Type(), Sort: SInt, S: fmt.Sprintf("(gs.at %s %s)", base.S, idx.S)})
		return
	}
	m := x.X.Type().Underlying().(*types.Map)
	_, _, dh, vh := fx.mapHeaps(st, m)
	if idx.Sort == SIface && idx.S == "" {
		panic(toolLimit("map lookup with non-term key"))
	}
	present := and(not(eq(base.S, "0")), sel(sel(dh, base.S), idx.S))
	vt := m.Elem()
	raw := Val{T: vt, Sort: fx.em.SortOf(vt), S: sel(sel(vh, base.S), idx.S)}
	raw = fx.loaded(raw)
	v := Val{T: vt, Sort: raw.Sort, S: ite(present, raw.S, fx.em.Zero(vt))}
	if x.CommaOk {
		v.S = fx.em.Define("lk", v.Sort, v.S)
		fx.vals[x] = Val{T: x.Type(), Tup: []Val{v, {T: types.Typ[types.Bool], Sort: SBool, S: fx.em.Define("lkok", SBool, present)}}}
		return
	}
	fx.def(x, v)
}

func (fx *FuncExec) execMapUpdate(st *State, x *ssa.MapUpdate) {
	base := fx.val(st, x.Map)
	k := fx.val(st, x.Key)
	v := fx.val(st, x.Value)
	if v.S == "" {
		v = Val{T: v.T, S: fx.em.Fresh("opaque", SInt), Sort: SInt}
	}
	m := x.Map.Type().Underlying().(*types.Map)
	dk, vk, dh, vh := fx.mapHeaps(st, m)
	fx.oblige("mapnil", st, not(eq(base.S, "0")), "assignment to entry in nil map", x.Pos())
	fx.checkGuardMap(st, x.Map, x.Pos())
	oldDom := sel(dh, base.S)
	newDom := sto(oldDom, k.S, "true")
	fx.em.Assert(eq(fx.mapCard(m, newDom), ite(sel(oldDom, k.S), fx.mapCard(m, oldDom), add(fx.mapCard(m, oldDom), "1"))))
	st.heaps[dk] = fx.em.DefineRaw(dk, fx.heapInfos[dk].sortText, sto(dh, base.S, newDom))
	st.heaps[vk] = fx.em.DefineRaw(vk, fx.heapInfos[vk].sortText, sto(vh, base.S, sto(sel(vh, base.S), k.S, v.S)))
	fx.logWriteAt(dk, base.S)
	fx.logWriteAt(vk, base.S)
	fx.afterMapUpdate(st, x, []Val{base, k, v})
}

// afterMapUpdate: `at store map#N assert e` - e must hold right after the N-th (source order) map
// assignment m[k] = v of the function; arg0/arg1/arg2 are the map, the key and the value.
func (fx *FuncExec) afterMapUpdate(st *State, x *ssa.MapUpdate, args []Val) {
	if fx.fc == nil || len(fx.fc.Stores) == 0 {
		return
	}
	if fx.mapUpdOrd == nil {
		fx.mapUpdOrd = map[ssa.Instruction]int{}
		var ins []ssa.Instruction
		for _, b := range fx.fn.Blocks {
			for _, in := range b.Instrs {
				if _, ok := in.(*ssa.MapUpdate); ok {
					ins = append(ins, in)
				}
			}
		}
		sort.SliceStable(ins, func(i, j int) bool { return ins[i].Pos() < ins[j].Pos() })
		for i, in := range ins {
			fx.mapUpdOrd[in] = i + 1
		}
	}
	for _, ss := range fx.fc.Stores {
		if ss.Callee == "map" && ss.Ordinal == fx.mapUpdOrd[x] {
			env := fx.specEnv(st, fx.entry)
			env.callArgs = args
			fx.withLoop(env, st)
			for _, a := range ss.Asserts {
				fx.obligeClause("assert@store", st, env, a, fmt.Sprintf("after map assignment #%d: %s", ss.Ordinal, a.Text), x.Pos())
			}
			fx.usedCallSites[ss] = true
		}
	}
}

func (fx *FuncExec) execSlice(st *State, x *ssa.Slice) {
	base := fx.val(st, x.X)
	var lo, hi, mx string
	if x.Low != nil {
		lo = fx.val(st, x.Low).S
	} else {
		lo = "0"
	}
	switch t := x.X.Type().Underlying().(type) {
	case *types.Basic: // string
		if x.High != nil {
			hi = fx.val(st, x.High).S
		} else {
			hi = "(gs.len " + base.S + ")"
		}
		fx.oblige("slice", st, and(fmt.Sprintf("(<= 0 %s)", lo), fmt.Sprintf("(<= %s %s)", lo, hi), fmt.Sprintf("(<= %s (gs.len %s))", hi, base.S)),
			"string slice bounds out of range", x.Pos())
		fx.def(x, Val{T: x.Type(), Sort: SStr, S: fmt.Sprintf("(gs.sub %s %s %s)", base.S, lo, hi)})
	case *types.Slice:
		if x.High != nil {
			hi = fx.val(st, x.High).S
		} else {
			hi = "(s.len " + base.S + ")"
		}
		capT := "(s.cap " + base.S + ")"
		if x.Max != nil {
			mx = fx.val(st, x.Max).S
			fx.oblige("slice", st, and(fmt.Sprintf("(<= 0 %s)", lo), fmt.Sprintf("(<= %s %s)", lo, hi), fmt.Sprintf("(<= %s %s)", hi, mx), fmt.Sprintf("(<= %s %s)", mx, capT)),
				"slice bounds out of range", x.Pos())
		} else {
			mx = capT
			fx.oblige("slice", st, and(fmt.Sprintf("(<= 0 %s)", lo), fmt.Sprintf("(<= %s %s)", lo, hi), fmt.Sprintf("(<= %s %s)", hi, capT)),
				"slice bounds out of range", x.Pos())
		}
		fx.def(x, Val{T: x.Type(), Sort: SSlice, S: fmt.Sprintf("(mkSlice (s.arr %s) (+ (s.off %s) %s) (- %s %s) (- %s %s))", base.S, base.S, lo, hi, lo, mx, lo)})
	case *types.Pointer:
		at := t.Elem().Underlying().(*types.Array)
		n := fmt.Sprintf("%d", at.Len())
		if x.High != nil {
			hi = fx.val(st, x.High).S
		} else {
			hi = n
		}
		fx.oblige("slice", st, and(fmt.Sprintf("(<= 0 %s)", lo), fmt.Sprintf("(<= %s %s)", lo, hi), fmt.Sprintf("(<= %s %s)", hi, n)), "slice bounds out of range", x.Pos())
		r := Val{T: x.Type(), Sort: SSlice, S: fmt.Sprintf("(mkSlice %s %s (- %s %s) (- %s %s))", base.S, lo, hi, lo, n, lo)}
		if x.Low == nil && x.High == nil {
			r.Known = int(at.Len()) + 1
		}
		fx.def(x, r)
	default:
		panic(toolLimit("slice of %v", x.X.Type()))
	}
}

func (fx *FuncExec) execPhi(st *State, x *ssa.Phi) {
	b := x.Block()
	if _, isHead := fx.loops[b]; isHead {
		// value flows around the back edge: arbitrary
		fx.vals[x] = fx.freshVal(x.Type(), "phi:"+x.Name(), st)
		return
	}
	var vs []Val
	var cs []string
	for i, p := range b.Preds {
		for si, s := range p.Succs {
			if s == b {
				if e, ok := fx.edgeOut[[2]int{p.Index, si}]; ok {
					v, ok2 := fx.vals[x.Edges[i]]
					if c, isC := x.Edges[i].(*ssa.Const); isC {
						v, _ = fx.em.ConstVal(c.Value, c.Type())
						ok2 = true
					}
					if ok2 {
						vs = append(vs, v)
						cs = append(cs, e.cond)
					}
				}
			}
		}
	}
	if len(vs) == 0 {
		fx.vals[x] = fx.freshVal(x.Type(), "phi:"+x.Name(), st)
		return
	}
	t := vs[len(vs)-1].S
	for i := len(vs) - 2; i >= 0; i-- {
		t = ite(cs[i], vs[i].S, t)
	}
	fx.def(x, Val{T: x.Type(), Sort: vs[0].Sort, S: t})
}

func (fx *FuncExec) execNext(st *State, x *ssa.Next) {
	it := fx.val(st, x.Iter)
	tup := x.Type().(*types.Tuple)
	ok := Val{T: tup.At(0).Type(), Sort: SBool, S: fx.em.Fresh("next.ok", SBool)}
	if x.IsString {
		k := Val{T: tup.At(1).Type(), Sort: SInt, S: fx.em.Fresh("next.k", SInt)}
		r := Val{T: tup.At(2).Type(), Sort: SInt, S: fx.em.Fresh("next.rune", SInt)}
		fx.assume(st, imp(ok.S, and(fmt.Sprintf("(<= 0 %s)", k.S), fmt.Sprintf("(< %s (gs.len %s))", k.S, it.S), fmt.Sprintf("(<= 0 %s)", r.S), fmt.Sprintf("(<= %s 1114111)", r.S))))
		fx.assume(st, imp(and(ok.S, fmt.Sprintf("(< %s 128)", r.S)), eq(r.S, fmt.Sprintf("(gs.at %s %s)", it.S, k.S))))
		fx.vals[x] = Val{T: x.Type(), Tup: []Val{ok, k, r}}
		return
	}
	m := x.Iter.(*ssa.Range).X.Type().Underlying().(*types.Map)
	_, _, dh, vh := fx.mapHeaps(st, m)
	k := fx.freshVal(m.Key(), "next.k", st)
	fx.assume(st, imp(ok.S, and(not(eq(it.S, "0")), sel(sel(dh, it.S), k.S))))
	v := fx.loaded(Val{T: m.Elem(), Sort: fx.em.SortOf(m.Elem()), S: sel(sel(vh, it.S), k.S)})
	fx.vals[x] = Val{T: x.Type(), Tup: []Val{ok, k, v}}
}

func (fx *FuncExec) execSelect(st *State, x *ssa.Select) {
	tup := x.Type().(*types.Tuple)
	idx := Val{T: tup.At(0).Type(), Sort: SInt, S: fx.em.Fresh("select.idx", SInt)}
	lo := "0"
	if !x.Blocking {
		lo = "(- 1)"
	}
	fx.assume(st, and(fmt.Sprintf("(<= %s %s)", lo, idx.S), fmt.Sprintf("(< %s %d)", idx.S, len(x.States))))
	vs := []Val{idx, {T: tup.At(1).Type(), Sort: SBool, S: fx.em.Fresh("select.ok", SBool)}}
	for i := 2; i < tup.Len(); i++ {
		vs = append(vs, fx.freshVal(tup.At(i).Type(), "select.recv", st))
	}
	fx.vals[x] = Val{T: x.Type(), Tup: vs}
	fx.note("select yields an arbitrary ready case (A4)")
}

func (fx *FuncExec) execConvert(st *State, x *ssa.Convert) {
	v := fx.val(st, x.X)
	from, to := x.X.Type().Underlying(), x.Type().Underlying()
	fs, ts := v.Sort, fx.em.SortOf(x.Type())
	switch {
	case fs == ts && fs != SSlice:
		if fs == SInt {
			// integer narrowing is not modelled (A1), except to unsigned byte where we keep the range fact honest
			if tb, ok := to.(*types.Basic); ok && tb.Info()&types.IsInteger != 0 {
				if fb, ok := from.(*types.Basic); ok && fb.Info()&types.IsInteger != 0 && intWidth(tb) < intWidth(fb) {
					fx.note("A1: narrowing integer conversions are treated as identity")
				}
			}
		}
		fx.def(x, Val{T: x.Type(), Sort: ts, S: v.S})
	case fs == SInt && ts == SF64:
		fx.def(x, Val{T: x.Type(), Sort: SF64, S: fmt.Sprintf("((_ to_fp 11 53) RNE (to_real %s))", v.S)})
	case fs == SF64 && ts == SInt:
		fx.def(x, Val{T: x.Type(), Sort: SInt, S: fmt.Sprintf("(f64.toint %s)", v.S)})
		fx.declareToInt()
	case fs == SStr && ts == SSlice:
		// []byte(s) / []rune(s): fresh array
		el := to.(*types.Slice).Elem()
		arr := fx.NewRef(st, "arr")
		es := fx.em.SortOf(el)
		key := elemKey(el)
		h := fx.heapTerm(st, key, arr2Sort(es), el)
		inner := fx.em.FreshRaw("conv.arr", arrSort(es))
		n := fx.em.Fresh("conv.len", SInt)
		if eb, ok := el.Underlying().(*types.Basic); ok && eb.Kind() == types.Uint8 {
			fx.em.Assert(eq(n, "(gs.len "+v.S+")"))
			fx.em.Assert(fmt.Sprintf("(forall ((i Int)) (! (=> (and (<= 0 i) (< i %s)) (= (select %s i) (gs.at %s i))) :pattern ((select %s i))))", n, inner, v.S, inner))
		} else {
			// []rune(s): a deterministic function of s - its length is gs.runecount(s), its elements gs.runes(s)
			fx.em.DeclareBase("gs.runecount", "(declare-fun gs.runecount (Str) Int)\n(declare-fun gs.runes (Str) (Array Int Int))")
			fx.em.Assert(eq(n, "(gs.runecount "+v.S+")"))
			fx.em.Assert(eq(inner, "(gs.runes "+v.S+")"))
			fx.em.Assert(and(fmt.Sprintf("(<= 0 %s)", n), fmt.Sprintf("(<= %s (gs.len %s))", n, v.S)))
			fx.em.Assert(imp(eq("(gs.len "+v.S+")", "0"), eq(n, "0")))
			fx.em.Assert(imp(fmt.Sprintf("(> (gs.len %s) 0)", v.S), fmt.Sprintf("(> %s 0)", n)))
			fx.note("[]rune(string): a deterministic function of the string (rune count between 1 and the byte length for non-empty strings); rune values are not related to bytes")
		}
		st.heaps[key] = fx.em.DefineRaw(key, arr2Sort(es), sto(h, arr, inner))
		fx.logWriteAt(key, arr)
		fx.def(x, Val{T: x.Type(), Sort: SSlice, S: fmt.Sprintf("(mkSlice %s 0 %s %s)", arr, n, n)})
	case fs == SSlice && ts == SStr:
		el := from.(*types.Slice).Elem()
		es := fx.em.SortOf(el)
		key := elemKey(el)
		h := fx.heapTerm(st, key, arr2Sort(es), el)
		s := fx.em.Fresh("conv.str", SStr)
		if eb, ok := el.Underlying().(*types.Basic); ok && eb.Kind() == types.Uint8 {
			fx.em.Assert(eq("(gs.len "+s+")", "(s.len "+v.S+")"))
			fx.em.Assert(fmt.Sprintf("(forall ((i Int)) (! (=> (and (<= 0 i) (< i (s.len %s))) (= (gs.at %s i) (select (select %s (s.arr %s)) (+ (s.off %s) i)))) :pattern ((gs.at %s i))))", v.S, s, h, v.S, v.S, s))
		} else {
			fx.em.Assert(fmt.Sprintf("(>= (gs.len %s) (s.len %s))", s, v.S))
			fx.em.Assert(imp(eq("(s.len "+v.S+")", "0"), eq("(gs.len "+s+")", "0")))
			// a single ASCII rune encodes as the one byte with the same value
			e0 := fmt.Sprintf("(select (select %s (s.arr %s)) (s.off %s))", h, v.S, v.S)
			fx.em.Assert(imp(and(eq("(s.len "+v.S+")", "1"), fmt.Sprintf("(<= 0 %s)", e0), fmt.Sprintf("(< %s 128)", e0)),
				and(eq("(gs.len "+s+")", "1"), eq("(gs.at "+s+" 0)", e0))))
			fx.note("string([]rune): byte length is at least the rune count; contents are not related")
		}
		fx.def(x, Val{T: x.Type(), Sort: SStr, S: s})
	case fs == SInt && ts == SStr:
		s := fx.em.Fresh("conv.runestr", SStr)
		fx.em.Assert(and(fmt.Sprintf("(<= 1 (gs.len %s))", s), fmt.Sprintf("(<= (gs.len %s) 4)", s)))
		fx.em.Assert(imp(and(fmt.Sprintf("(<= 0 %s)", v.S), fmt.Sprintf("(< %s 128)", v.S)), and(eq("(gs.len "+s+")", "1"), eq("(gs.at "+s+" 0)", v.S))))
		fx.def(x, Val{T: x.Type(), Sort: SStr, S: s})
	case fs == SSlice && ts == SSlice:
		fx.def(x, Val{T: x.Type(), Sort: ts, S: v.S})
	case (fs == SInt && ts == SBV) || (fs == SBV && ts == SInt):
		fx.def(x, fx.convertSort(v, ts, x.Type()))
	default:
		panic(toolLimit("conversion %v -> %v", x.X.Type(), x.Type()))
	}
}

func intWidth(b *types.Basic) int {
	switch b.Kind() {
	case types.Int8, types.Uint8:
		return 8
	case types.Int16, types.Uint16:
		return 16
	case types.Int32, types.Uint32:
		return 32
	}
	return 64
}

func (fx *FuncExec) execTypeAssert(st *State, x *ssa.TypeAssert) {
	v := fx.val(st, x.X)
	at := x.AssertedType
	var ok, res string
	if _, isI := at.Underlying().(*types.Interface); isI {
		if it := at.Underlying().(*types.Interface); it.NumMethods() == 0 {
			ok = not(eq("(i.tag "+v.S+")", "0"))
		} else {
			itag := fx.em.Tag(at)
			ok = and(not(eq("(i.tag "+v.S+")", "0")), fmt.Sprintf("(implements (i.tag %s) %d)", v.S, itag))
		}
		res = v.S
		if x.CommaOk {
			okn := fx.em.Define("ta.ok", SBool, ok)
			fx.vals[x] = Val{T: x.Type(), Tup: []Val{{T: at, Sort: SIface, S: fx.em.Define("ta", SIface, ite(okn, res, "(mkIface 0 0)"))}, {T: types.Typ[types.Bool], Sort: SBool, S: okn}}}
			return
		}
		fx.oblige("typeassert", st, ok, fmt.Sprintf("interface conversion to %s may panic", typeKey(at)), x.Pos())
		fx.def(x, Val{T: at, Sort: SIface, S: res})
		return
	}
	tag := fx.em.Tag(at)
	ok = eq("(i.tag "+v.S+")", fmt.Sprintf("%d", tag))
	s := fx.em.SortOf(at)
	res = fx.em.Unbox("(i.val "+v.S+")", s)
	if x.CommaOk {
		okn := fx.em.Define("ta.ok", SBool, ok)
		rv := Val{T: at, Sort: s, S: fx.em.Define("ta", s, ite(okn, res, fx.em.Zero(at)))}
		fx.typeFacts(rv)
		fx.vals[x] = Val{T: x.Type(), Tup: []Val{rv, {T: types.Typ[types.Bool], Sort: SBool, S: okn}}}
		return
	}
	fx.oblige("typeassert", st, ok, fmt.Sprintf("type assertion to %s may panic", typeKey(at)), x.Pos())
	rv := Val{T: at, Sort: s, S: fx.em.Define("ta", s, res)}
	fx.typeFacts(rv)
	fx.vals[x] = rv
}

// ---- binary operators ---------------------------------------------------------------------------------

func (fx *FuncExec) binop(st *State, op token.Token, a, b Val, rt types.Type, emitSafety bool) Val {
	bv := func(s string) Val { return Val{T: types.Typ[types.Bool], Sort: SBool, S: s} }
	// comparisons with nil
	if op == token.EQL || op == token.NEQ {
		var t string
		switch {
		case a.Sort == SIface && b.Sort == SIface:
			if b.S == "(mkIface 0 0)" {
				t = eq("(i.tag "+a.S+")", "0")
			} else if a.S == "(mkIface 0 0)" {
				t = eq("(i.tag "+b.S+")", "0")
			} else {
				t = eq(a.S, b.S)
			}
		case a.Sort == SSlice:
			if b.S == "(mkSlice 0 0 0 0)" {
				t = eq("(s.arr "+a.S+")", "0")
			} else if a.S == "(mkSlice 0 0 0 0)" {
				t = eq("(s.arr "+b.S+")", "0")
			} else if !emitSafety {
				t = eq(a.S, b.S) // in contracts: the same slice header
			} else {
				panic(toolLimit("slice comparison"))
			}
		case a.S == "" || b.S == "":
			// addresses / function values: only nil comparison is meaningful
			if a.S == "" && (b.S == "0") {
				t = "false"
			} else if b.S == "" && a.S == "0" {
				t = "false"
			} else {
				t = fx.em.Fresh("ptrcmp", SBool)
			}
		case a.Sort == SF64:
			t = fmt.Sprintf("(fp.eq %s %s)", a.S, b.S)
		case a.Sort == SStr && emitSafety && !strings.HasPrefix(a.S, "|lit") && !strings.HasPrefix(b.S, "|lit"):
			// a string comparison of the program between two non-literal strings: give the solver the
			// extensionality instance for this pair (equal bytes = equal strings); gs.ext is only a trigger
			fx.em.Assert(fmt.Sprintf("(gs.ext %s %s)", a.S, b.S))
			t = eq(a.S, b.S)
		default:
			t = eq(a.S, b.S)
		}
		if op == token.NEQ {
			t = not(t)
		}
		return bv(t)
	}
	switch a.Sort {
	case SBool:
		switch op {
		case token.LAND, token.AND:
			return bv(and(a.S, b.S))
		case token.LOR, token.OR:
			return bv(or(a.S, b.S))
		}
	case SStr:
		switch op {
		case token.ADD:
			return Val{T: rt, Sort: SStr, S: fmt.Sprintf("(gs.cat %s %s)", a.S, b.S)}
		case token.LSS:
			return bv(fmt.Sprintf("(gs.lt %s %s)", a.S, b.S))
		case token.GTR:
			return bv(fmt.Sprintf("(gs.lt %s %s)", b.S, a.S))
		case token.LEQ:
			return bv(not(fmt.Sprintf("(gs.lt %s %s)", b.S, a.S)))
		case token.GEQ:
			return bv(not(fmt.Sprintf("(gs.lt %s %s)", a.S, b.S)))
		}
	case SF64:
		f := func(o string) Val { return Val{T: rt, Sort: SF64, S: fmt.Sprintf("(%s RNE %s %s)", o, a.S, b.S)} }
		c := func(o string) Val { return bv(fmt.Sprintf("(%s %s %s)", o, a.S, b.S)) }
		switch op {
		case token.ADD:
			return f("fp.add")
		case token.SUB:
			return f("fp.sub")
		case token.MUL:
			return f("fp.mul")
		case token.QUO:
			return f("fp.div")
		case token.LSS:
			return c("fp.lt")
		case token.LEQ:
			return c("fp.leq")
		case token.GTR:
			return c("fp.gt")
		case token.GEQ:
			return c("fp.geq")
		}
	case SBV:
		if b.Sort == SInt {
			b = fx.convertSort(b, SBV, a.T)
		}
		f := func(o string) Val { return Val{T: rt, Sort: SBV, S: fmt.Sprintf("(%s %s %s)", o, a.S, b.S)} }
		switch op {
		case token.AND:
			return f("bvand")
		case token.OR:
			return f("bvor")
		case token.XOR:
			return f("bvxor")
		case token.AND_NOT:
			return Val{T: rt, Sort: SBV, S: fmt.Sprintf("(bvand %s (bvnot %s))", a.S, b.S)}
		case token.ADD:
			return f("bvadd")
		case token.SUB:
			return f("bvsub")
		case token.SHL:
			return f("bvshl")
		case token.SHR:
			return f("bvlshr")
		}
	case SInt:
		i := func(s string) Val { return Val{T: rt, Sort: SInt, S: s} }
		switch op {
		case token.ADD:
			return i(add(a.S, b.S))
		case token.SUB:
			return i(sub(a.S, b.S))
		case token.MUL:
			return i(fmt.Sprintf("(* %s %s)", a.S, b.S))
		case token.QUO:
			if emitSafety {
				fx.oblige("divzero", st, not(eq(b.S, "0")), "integer division by zero", token.NoPos)
			}
			return i(fmt.Sprintf("(go.div %s %s)", a.S, b.S))
		case token.REM:
			if emitSafety {
				fx.oblige("divzero", st, not(eq(b.S, "0")), "integer modulo by zero", token.NoPos)
			}
			return i(fmt.Sprintf("(go.mod %s %s)", a.S, b.S))
		case token.LSS:
			return bv(fmt.Sprintf("(< %s %s)", a.S, b.S))
		case token.LEQ:
			return bv(fmt.Sprintf("(<= %s %s)", a.S, b.S))
		case token.GTR:
			return bv(fmt.Sprintf("(> %s %s)", a.S, b.S))
		case token.GEQ:
			return bv(fmt.Sprintf("(>= %s %s)", a.S, b.S))
		case token.AND, token.OR, token.XOR, token.SHL, token.SHR, token.AND_NOT:
			if x, okx := strconv.ParseInt(a.S, 10, 64); okx == nil && x >= 0 {
				if y, oky := strconv.ParseInt(b.S, 10, 64); oky == nil && y >= 0 && (op != token.SHL && op != token.SHR || y < 62) {
					// both operands are non-negative numerals: fold
					var r int64
					switch op {
					case token.AND:
						r = x & y
					case token.OR:
						r = x | y
					case token.XOR:
						r = x ^ y
					case token.SHL:
						r = x << uint(y)
					case token.SHR:
						r = x >> uint(y)
					case token.AND_NOT:
						r = x &^ y
					}
					return i(fmt.Sprintf("%d", r))
				}
			}
			name := map[token.Token]string{token.AND: "int.and", token.OR: "int.or", token.XOR: "int.xor", token.SHL: "int.shl", token.SHR: "int.shr", token.AND_NOT: "int.andnot"}[op]
			fx.em.DeclareBase(name, fmt.Sprintf("(declare-fun %s (Int Int) Int)", name))
			fx.note("bit operations on mathematical integers are uninterpreted functions")
			return i(fmt.Sprintf("(%s %s %s)", name, a.S, b.S))
		}
	}
	panic(toolLimit("binary operator %v on sort %s", op, a.Sort))
}

// ---- finish: postconditions -----------------------------------------------------------------------------

func (fx *FuncExec) finish() {
	if len(fx.returns) == 0 {
		return
	}
	var ins []incoming
	for _, r := range fx.returns {
		ins = append(ins, incoming{st: r.st, cond: r.st.pc})
	}
	exit := fx.Merge(ins, "exit")
	nres := len(fx.returns[0].results)
	var results []Val
	for i := 0; i < nres; i++ {
		t := fx.returns[len(fx.returns)-1].results[i]
		if t.S == "" {
			results = append(results, t)
			continue
		}
		s := t.S
		for k := len(fx.returns) - 2; k >= 0; k-- {
			s = ite(fx.returns[k].st.pc, fx.returns[k].results[i].S, s)
		}
		results = append(results, Val{T: t.T, Sort: t.Sort, S: fx.em.Define(fmt.Sprintf("result%d", i), t.Sort, s)})
	}
	fx.curInstr = nil
	pos := fx.fn.Pos()
	if fx.V.covers {
		fx.cover(exit, "a return is reachable under everything assumed on the way (contracts of callees, invariants)", pos)
		for i, r := range fx.returns {
			fx.cover(r.st, fmt.Sprintf("return #%d is reachable", i+1), pos)
		}
	}
	// locks still held at return
	var lks []string
	for k := range exit.locks {
		lks = append(lks, k)
	}
	sort.Strings(lks)
	for _, k := range lks {
		if fx.heldOnEntry[k] {
			continue
		}
		fx.oblige("unlock", exit, not(exit.locks[k]), "lock "+k+" is released on every return path", pos)
	}
	if fx.fc == nil {
		return
	}
	// ghost updates attached to the return (they may read locals and results)
	for _, g := range fx.fc.Ghost {
		if g.At == "return" {
			genv := fx.specEnv(exit, fx.entry)
			genv.results = results
			l := fx.evalLoc(genv, g.LHS.Expr)
			genv.clauseSrc = g.RHS.Src
			v := fx.evalSpec(genv, g.RHS.Expr)
			fx.Store(exit, l, v)
		}
	}
	// `at return #N assert e`: e holds at the N-th return statement (source order), with that
	// return's own results and state (no merging with the other returns)
	if len(fx.fc.Returns) > 0 {
		var all []ssa.Instruction
		for _, b := range fx.fn.Blocks {
			for _, in := range b.Instrs {
				if _, ok := in.(*ssa.Return); ok && in.Pos() != token.NoPos {
					all = append(all, in)
				}
			}
		}
		sort.SliceStable(all, func(i, j int) bool { return all[i].Pos() < all[j].Pos() })
		ord := map[ssa.Instruction]int{}
		for i, in := range all {
			ord[in] = i + 1
		}
		for _, rs := range fx.fc.Returns {
			for _, r := range fx.returns {
				if ord[r.instr] != rs.Ordinal {
					continue
				}
				renv := fx.specEnv(r.st, fx.entry)
				renv.results = r.results
				renv.atReturn = true
				for _, a := range rs.Asserts {
					fx.obligeClause("assert@return", r.st, renv, a, fmt.Sprintf("at return #%d: %s", rs.Ordinal, a.Text), r.pos)
				}
				fx.usedCallSites[rs] = true
			}
		}
	}
	env := fx.specEnv(exit, fx.entry)
	env.results = results
	env.atReturn = true
	for _, e := range fx.fc.Ensures {
		if e.Assumed {
			fx.assumptions[fmt.Sprintf("trusted clause of %s (assumed at call sites, not checked): %s", fx.relName(), e.Text)] = true
			continue
		}
		fx.obligeClause("post", exit, env, e, "postcondition: "+e.Text, pos)
	}
	for _, e := range fx.fc.Asserts {
		fx.oblige("assert", exit, fx.evalBool(env, e), "lemma assertion: "+e.Text, pos)
	}
	if fx.fc.HasMod {
		before := fx.counts["frame"]
		fx.checkFrame(exit, env)
		if fx.counts["frame"] == before {
			fx.oblige("frame", exit, "true", "no heap location is written on any path (syntactic)", pos)
		}
	}
}

// discoverLoop executes the blocks of the loop once in discard mode and returns what was written.
func (fx *FuncExec) discoverLoop(li *loopInfo, from *State, targets bool) (map[string]bool, map[string]map[string]bool, map[ssa.Value]bool) {
	savedW, savedT, savedC := fx.writeLog, fx.writeTargets, fx.cellLog
	fx.writeLog, fx.cellLog = map[string]bool{}, map[ssa.Value]bool{}
	fx.writeTargets = nil
	if targets {
		fx.writeTargets = map[string]map[string]bool{}
	}
	fx.discard++
	snap := len(fx.em.lines)
	savedEdges := fx.edgeOut
	fx.edgeOut = map[[2]int]incoming{}
	savedOrd := map[string]int{}
	for k, v := range fx.callOrd {
		savedOrd[k] = v
	}
	su, sl := fx.unlockOrd, fx.lockOrd
	savedCL := fx.callLog
	fx.callLog = map[string]bool{}
	fx.execBlocks(fx.rpo, li.blocks, li.head, from)
	if li.calledIn == nil {
		li.calledIn = map[string]bool{}
	}
	for k := range fx.callLog {
		li.calledIn[k] = true
		if savedCL != nil {
			savedCL[k] = true // an enclosing loop's body calls it too
		}
	}
	fx.callLog = savedCL
	fx.unlockOrd, fx.lockOrd = su, sl
	fx.callOrd = savedOrd
	fx.edgeOut = savedEdges
	if !targets {
		fx.em.lines = fx.em.lines[:snap]
	}
	fx.discard--
	wl, wt, cl := fx.writeLog, fx.writeTargets, fx.cellLog
	fx.writeLog, fx.writeTargets, fx.cellLog = savedW, savedT, savedC
	return wl, wt, cl
}

// havocForLoop builds the state at the loop head: written cells are arbitrary; a written heap is
// arbitrary except that objects which existed at loop entry and are not among the (stable) written
// locations keep their value. With stable == nil every written heap is wholly arbitrary.
func (fx *FuncExec) havocForLoop(li *loopInfo, pre *State, wl map[string]bool, cl map[ssa.Value]bool, stable map[string][]string, n1 int) *State {
	st := pre.Clone()
	// a callee that the loop body calls may have been called in an earlier iteration: at the loop head
	// "has been called" is unknown for it unless it was already true before the loop
	if len(li.calledIn) > 0 {
		var names []string
		for k := range li.calledIn {
			names = append(names, k)
		}
		sort.Strings(names)
		if st.called == nil {
			st.called = map[string]string{}
		}
		for _, k := range names {
			prev, ok := st.called[k]
			if ok && prev == "true" {
				continue
			}
			nb := fx.em.Fresh("loop"+li.name+":called", SBool)
			if ok {
				st.called[k] = or(prev, nb)
			} else {
				st.called[k] = nb
			}
		}
	}
	var havocked []Val
	var cells []ssa.Value
	for c := range cl {
		cells = append(cells, c)
	}
	sort.Slice(cells, func(i, j int) bool { return cells[i].Name() < cells[j].Name() })
	for _, c := range cells {
		old, ok := pre.cells[c]
		if !ok {
			continue
		}
		if old.S == "" {
			delete(st.cells, c)
			continue
		}
		nv := Val{T: old.T, Sort: old.Sort, S: fx.em.Fresh("loop"+li.name+":"+cellName(c), old.Sort)}
		fx.typeFacts(nv)
		if a, ok := c.(*ssa.Alloc); ok && a.Comment == "rangeindex" {
			fx.em.Assert(fmt.Sprintf("(>= %s (- 1))", nv.S))
		}
		st.cells[c] = nv
		havocked = append(havocked, nv)
	}
	defer func() {
		// everything a cell can hold was allocated before now (facts relative to the new watermark)
		for _, nv := range havocked {
			fx.refFacts(st, nv)
		}
	}()
	var keys []string
	for k := range wl {
		keys = append(keys, k)
	}
	sort.Strings(keys)
	topPre := pre.heaps[topKey]
	if topPre == "" {
		topPre = q(topKey)
	}
	for _, k := range keys {
		hi := fx.heapInfos[k]
		nh := fx.em.FreshRaw("loop"+li.name+":"+k, hi.sortText)
		if k == topKey {
			fx.em.Assert(fmt.Sprintf("(>= %s %s)", nh, topPre))
		}
		st.heaps[k] = nh
		if stable == nil || k == topKey || k[0] == 'G' {
			continue
		}
		ts, ok := stable[k]
		if !ok {
			continue
		}
		h0, ok0 := pre.heaps[k]
		if !ok0 {
			h0 = q(k)
		}
		conds := []string{"(<= r " + topPre + ")"}
		for _, t := range ts {
			conds = append(conds, not(eq("r", t)))
		}
		fx.em.Assert(fmt.Sprintf("(forall ((r Int)) (! (=> %s (= (select %s r) (select %s r))) :pattern ((select %s r)) :pattern ((select %s r))))", and(conds...), nh, h0, nh, h0))
	}
	return st
}

// freeVarWritten: does the closure (or a closure nested in it) store to this captured variable?
func freeVarWritten(fv *ssa.FreeVar, depth int) bool {
	if depth > 4 {
		return true
	}
	for _, r := range *fv.Referrers() {
		switch x := r.(type) {
		case *ssa.Store:
			if x.Addr == fv {
				return true
			}
			return true // the address itself is stored somewhere
		case *ssa.UnOp:
		case *ssa.MakeClosure:
			cf := x.Fn.(*ssa.Function)
			for i, b := range x.Bindings {
				if b == fv && i < len(cf.FreeVars) && freeVarWritten(cf.FreeVars[i], depth+1) {
					return true
				}
			}
		case *ssa.DebugRef:
		default:
			return true
		}
	}
	return false
}

// declareToInt: Go's float64 -> int conversion as an uninterpreted function that inverts the exact
// int -> float64 conversion on the range where every integer is representable (|i| < 2^53).
func (fx *FuncExec) declareToInt() {
	fx.em.DeclareBase("f64.toint", "(declare-fun f64.toint (F64) Int)")
	fx.em.DeclareBase("f64.toint.ax", "(assert (forall ((i Int)) (! (=> (and (< (- 9007199254740992) i) (< i 9007199254740992)) (= (f64.toint ((_ to_fp 11 53) RNE (to_real i))) i)) :pattern ((f64.toint ((_ to_fp 11 53) RNE (to_real i)))))))")
}

// staticCallOrdinals ranks, in source order, the calls to each statically known callee (so that
// `at call f#N` does not depend on the order in which blocks are executed).
func (fx *FuncExec) staticCallOrdinals() {
	byName := map[string][]ssa.Instruction{}
	for _, b := range fx.fn.Blocks {
		for _, in := range b.Instrs {
			ci, ok := in.(ssa.CallInstruction)
			if !ok {
				continue
			}
			c := ci.Common()
			name := ""
			if c.IsInvoke() {
				name = "(" + typeKey(c.Value.Type()) + ")." + c.Method.Name()
			} else {
				switch v := c.Value.(type) {
				case *ssa.Function:
					name = fx.V.funcKey(v)
				case *ssa.MakeClosure:
					name = fx.V.funcKey(v.Fn.(*ssa.Function))
				case *ssa.Builtin:
					continue
				case *ssa.UnOp:
					if g, ok := v.X.(*ssa.Global); ok {
						name = "dynamic:" + g.Name()
					} else {
						continue
					}
				case *ssa.Lookup:
					u, ok := v.X.(*ssa.UnOp)
					if !ok {
						continue
					}
					g, ok := u.X.(*ssa.Global)
					if !ok {
						continue
					}
					name = "dynamic:" + g.Name() + "[]"
				default:
					continue // resolved dynamically: execution-order ordinals
				}
			}
			short := name
			if i := strings.LastIndex(short, ":"); i >= 0 && !strings.HasPrefix(short, "dynamic") {
				short = short[i+1:]
			}
			byName[short] = append(byName[short], in)
		}
	}
	fx.callOrdStatic = map[ssa.Instruction]int{}
	for _, ins := range byName {
		sort.SliceStable(ins, func(i, j int) bool { return ins[i].Pos() < ins[j].Pos() })
		for i, in := range ins {
			fx.callOrdStatic[in] = i + 1
		}
	}
}

// cover: a reachability query (expected SAT): an unsatisfiable one means a contradictory
// precondition or invariant, i.e. everything behind it would be proved vacuously.
func (fx *FuncExec) cover(st *State, desc string, pos token.Pos) {
	if fx.discard > 0 {
		return
	}
	fx.counts["cover"]++
	ob := &Obligation{Kind: "cover", Func: fx.relName(), Desc: desc, Cover: true, prefix: len(fx.em.lines), pc: st.pc, goal: "false"}
	ob.Name = fmt.Sprintf("%s#cover:%d", fx.relName(), fx.counts["cover"])
	if pos != token.NoPos {
		p := fx.V.prog.Fset.Position(pos)
		ob.Pos = fmt.Sprintf("%s:%d", strings.TrimPrefix(p.Filename, "/repo/"), p.Line)
	}
	ob.Model = map[string]string{}
	fx.obls = append(fx.obls, ob)
}

// afterStore: `at store Field#N assert e` - e must hold right after the N-th (source order) store
// to a struct field of that name.
func (fx *FuncExec) afterStore(st *State, x *ssa.Store) {
	if fx.fc == nil || len(fx.fc.Stores) == 0 {
		return
	}
	if fx.storeOrd == nil {
		fx.storeOrd = map[ssa.Instruction]int{}
		fx.storeField = map[ssa.Instruction]string{}
		by := map[string][]ssa.Instruction{}
		for _, b := range fx.fn.Blocks {
			for _, in := range b.Instrs {
				if s, ok := in.(*ssa.Store); ok {
					if fa, ok := s.Addr.(*ssa.FieldAddr); ok {
						pt := fa.X.Type().Underlying().(*types.Pointer)
						name := pt.Elem().Underlying().(*types.Struct).Field(fa.Field).Name()
						by[name] = append(by[name], in)
						fx.storeField[in] = name
					}
					if g, ok := s.Addr.(*ssa.Global); ok {
						// a store to a package-level variable is named after the variable
						by[g.Name()] = append(by[g.Name()], in)
						fx.storeField[in] = g.Name()
					}
				}
			}
		}
		for _, ins := range by {
			sort.SliceStable(ins, func(i, j int) bool { return ins[i].Pos() < ins[j].Pos() })
			for i, in := range ins {
				fx.storeOrd[in] = i + 1
			}
		}
	}
	name, ok := fx.storeField[x]
	if !ok {
		return
	}
	for _, ss := range fx.fc.Stores {
		if ss.Callee == name && (ss.Ordinal == fx.storeOrd[x] || ss.Ordinal == -1) {
			env := fx.specEnv(st, fx.entry)
			fx.withLoop(env, st)
			if fa, ok := x.Addr.(*ssa.FieldAddr); ok {
				// arg0 = the struct written to, arg1 = the value stored
				env.callArgs = []Val{fx.val(st, fa.X), fx.val(st, x.Val)}
			}
			for _, a := range ss.Asserts {
				fx.obligeClause("assert@store", st, env, a, fmt.Sprintf("after store %s#%d: %s", name, ss.Ordinal, a.Text), x.Pos())
			}
			fx.usedCallSites[ss] = true
		}
	}
}

// withLoop makes $idx available in clauses attached to an instruction inside a loop: the innermost
// loop around the current instruction.
func (fx *FuncExec) withLoop(env *SpecEnv, st *State) {
	if fx.curInstr == nil || fx.curInstr.Block() == nil {
		return
	}
	for _, li := range fx.loops {
		if li.blocks[fx.curInstr.Block()] && (env.loop == nil || len(li.blocks) < len(env.loop.blocks)) {
			env.loop = li
			env.idxState = st
		}
	}
}
