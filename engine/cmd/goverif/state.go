package main

// Symbolic state, heaps, locations, load/store.

import (
	"fmt"
	"go/types"
	"sort"
	"strings"

	"golang.org/x/tools/go/ssa"
)

type lockRec struct {
	Obj    string // object ref term
	TS     *TypeSpec
	Named  *types.Named
	AtLock *State
}

// deferRec: a registered deferred call and the condition (relative to the state's path) under which it
// was registered.
type deferRec struct {
	d    *ssa.Defer
	cond string
}

type State struct {
	pc       string
	cells    map[ssa.Value]Val
	heaps    map[string]string
	locks    map[string]string // lock key -> held condition
	rlocks   map[string]string // lock key -> "held in read mode" condition
	rets     map[string]Val    // "callee#ordinal" -> what that call returned on this path
	calledIter map[string]string // like called, but reset at every loop head: "called during this iteration"
	called   map[string]string // callee short name -> "has been called on this path" condition
	lockInfo map[string]*lockRec
	lastSeen map[string]*State // lock key -> state at last unlock (for rely)
	defers   []deferRec // deferred calls registered on the way, each with the condition under which it was
	labels   map[string]*State
	dead     bool
}

func (s *State) Clone() *State {
	n := &State{pc: s.pc, cells: make(map[ssa.Value]Val, len(s.cells)), heaps: make(map[string]string, len(s.heaps)),
		locks: map[string]string{}, lockInfo: map[string]*lockRec{}, lastSeen: map[string]*State{}, labels: map[string]*State{}}
	for k, v := range s.cells {
		n.cells[k] = v
	}
	for k, v := range s.heaps {
		n.heaps[k] = v
	}
	for k, v := range s.locks {
		n.locks[k] = v
	}
	n.rlocks = map[string]string{}
	for k, v := range s.rlocks {
		n.rlocks[k] = v
	}
	n.rets = map[string]Val{}
	for k, v := range s.rets {
		n.rets[k] = v
	}
	n.calledIter = map[string]string{}
	for k, v := range s.calledIter {
		n.calledIter[k] = v
	}
	n.called = map[string]string{}
	for k, v := range s.called {
		n.called[k] = v
	}
	for k, v := range s.lockInfo {
		n.lockInfo[k] = v
	}
	for k, v := range s.lastSeen {
		n.lastSeen[k] = v
	}
	for k, v := range s.labels {
		n.labels[k] = v
	}
	n.defers = append([]deferRec(nil), s.defers...)
	return n
}

// ---- heap keys ----------------------------------------------------------------------------------

func fieldKey(owner types.Type, st *types.Struct, i int) string {
	return "F:" + typeKey(owner) + "." + st.Field(i).Name()
}
func elemKey(elem types.Type) string { return "E:" + typeKey(elem) }
func ptrKey(t types.Type) string     { return "P:" + typeKey(t) }
func globalKey(g *ssa.Global) string {
	p := strings.TrimPrefix(g.Pkg.Pkg.Path(), "github.com/lmorg/murex/")
	return "G:" + p + "." + g.Name()
}
func mapKeys(m *types.Map) (dom, val string) {
	k := typeKey(m.Key()) + "=>" + typeKey(m.Elem())
	return "MD:" + k, "MV:" + k
}

const topKey = "$top"

// heapInfo describes a heap key: its SMT sort text and the packages whose code can name it.
type heapInfo struct {
	sortText string
	pkgs     []string // package paths of named types involved ("" = universe only)
	kind     byte
}

func (fx *FuncExec) heapTerm(st *State, key string, sortText string, t types.Type) string {
	if h, ok := st.heaps[key]; ok {
		return h
	}
	fx.registerHeap(key, sortText, t)
	if fx.universeFrozen && fx.discard == 0 {
		panic(toolLimit("internal: heap %s touched in the real pass but not in the discovery pass", key))
	}
	base := q(key)
	st.heaps[key] = base
	return base
}

func (fx *FuncExec) registerHeap(key, sortText string, t types.Type) {
	if _, ok := fx.heapInfos[key]; ok {
		return
	}
	hi := &heapInfo{sortText: sortText, kind: key[0]}
	if t != nil {
		hi.pkgs = namedPkgs(t)
	}
	fx.heapInfos[key] = hi
	fx.em.DeclareBase(key, fmt.Sprintf("(declare-const %s %s)", q(key), sortText))
}

func namedPkgs(t types.Type) []string {
	seen := map[string]bool{}
	var walk func(t types.Type, d int)
	walk = func(t types.Type, d int) {
		if d > 6 {
			return
		}
		switch u := t.(type) {
		case *types.Named:
			if u.Obj().Pkg() != nil {
				seen[u.Obj().Pkg().Path()] = true
			} else {
				seen[""] = true
			}
			for i := 0; i < u.TypeArgs().Len(); i++ {
				walk(u.TypeArgs().At(i), d+1)
			}
		case *types.Alias:
			walk(types.Unalias(u), d+1)
		case *types.Pointer:
			walk(u.Elem(), d+1)
		case *types.Slice:
			walk(u.Elem(), d+1)
		case *types.Array:
			walk(u.Elem(), d+1)
		case *types.Map:
			walk(u.Key(), d+1)
			walk(u.Elem(), d+1)
		case *types.Chan:
			walk(u.Elem(), d+1)
		default:
			seen[""] = true
		}
	}
	walk(t, 0)
	var out []string
	for k := range seen {
		out = append(out, k)
	}
	sort.Strings(out)
	return out
}

func arrSort(s Sort) string  { return fmt.Sprintf("(Array Int %s)", s) }
func arr2Sort(s Sort) string { return fmt.Sprintf("(Array Int (Array Int %s))", s) }

// ---- load / store ---------------------------------------------------------------------------------

func (fx *FuncExec) fieldHeap(st *State, owner types.Type, s *types.Struct, i int) (string, string) {
	key := fieldKey(owner, s, i)
	fs := fx.em.SortOf(s.Field(i).Type())
	return key, fx.heapTerm(st, key, arrSort(fs), owner)
}

func (fx *FuncExec) locString(l *Loc) string {
	switch l.Kind {
	case LCell:
		return fmt.Sprintf("cell:%s", l.Cell.Name())
	case LField:
		return fmt.Sprintf("%s[%s]", fieldKey(l.Owner, l.OwnerS, l.Field), l.Ref)
	case LElem:
		return fmt.Sprintf("%s[%s][%s]", elemKey(l.T), l.Arr, l.Idx)
	case LSub:
		return fmt.Sprintf("%s.%d", fx.locString(l.Parent), l.Field)
	case LGlobal:
		return globalKey(l.Global)
	case LPtr:
		return fmt.Sprintf("%s[%s]", ptrKey(l.T), l.Ref)
	}
	return "?"
}

func (fx *FuncExec) Load(st *State, l *Loc) Val {
	s := fx.em.SortOf(l.T)
	switch l.Kind {
	case LCell:
		v, ok := st.cells[l.Cell]
		if !ok {
			// first touch of a free variable / pointer parameter cell: its entry value
			n := q("cell0:" + l.Cell.Name())
			fx.em.DeclareBase("cell0:"+l.Cell.Name(), fmt.Sprintf("(declare-const %s %s)", n, s))
			v = Val{T: l.T, S: n, Sort: s}
			fx.typeFacts(v)
			st.cells[l.Cell] = v
		}
		return v
	case LField:
		_, h := fx.fieldHeap(st, l.Owner, l.OwnerS, l.Field)
		v := Val{T: l.T, S: sel(h, l.Ref), Sort: s}
		return fx.allocatedBefore(st, fx.loaded(v))
	case LElem:
		key := elemKey(l.T)
		h := fx.heapTerm(st, key, arr2Sort(s), l.T)
		v := Val{T: l.T, S: sel(sel(h, l.Arr), l.Idx), Sort: s}
		return fx.allocatedBefore(st, fx.loaded(v))
	case LSub:
		p := fx.Load(st, l.Parent)
		pst := l.Parent.T.Underlying().(*types.Struct)
		return Val{T: l.T, S: fmt.Sprintf("(%s %s)", fx.em.fieldSel(p.Sort, pst, l.Field), p.S), Sort: s}
	case LGlobal:
		key := globalKey(l.Global)
		h := fx.heapTerm(st, key, string(s), l.T)
		// globals of other packages keep their own package for the frame rule
		fx.heapInfos[key].pkgs = []string{l.Global.Pkg.Pkg.Path()}
		gv := fx.loaded(Val{T: l.T, S: h, Sort: s})
		if s == SIface && !strings.HasPrefix(l.Global.Pkg.Pkg.Path(), "github.com/lmorg/murex") && types.Identical(l.T, types.Universe.Lookup("error").Type()) {
			// exported error values of the standard library (io.EOF, io.ErrClosedPipe ...) are never nil (A3)
			fx.em.Assert(not(eq("(i.tag "+gv.S+")", "0")))
		}
		return gv
	case LPtr:
		return fx.Deref(st, Val{T: l.PT, S: l.Ref, Sort: SInt})
	}
	panic(toolLimit("load from unknown location kind"))
}

// loaded names a loaded value and attaches the facts every Go value of its type satisfies.
func (fx *FuncExec) loaded(v Val) Val {
	if v.Sort == SSlice || v.Sort == SIface || len(v.S) > 40 {
		v.S = fx.em.Define("ld", v.Sort, v.S)
	}
	fx.typeFacts(v)
	return v
}

// allocatedBefore: a slice read from the heap points to an array that exists now (its reference is at
// most the current allocation watermark) - a global well-formedness fact of the heap model.
func (fx *FuncExec) allocatedBefore(st *State, v Val) Val {
	if v.Sort == SSlice {
		if top, ok := st.heaps[topKey]; ok && top != "" {
			fx.em.Assert(fmt.Sprintf("(<= (s.arr %s) %s)", v.S, top))
		}
	}
	return v
}

func (fx *FuncExec) typeFacts(v Val) {
	switch v.Sort {
	case SSlice:
		fx.em.Assert(fmt.Sprintf("(slice.wf %s)", v.S))
	case SInt:
		if v.T == nil {
			return
		}
		if b, ok := v.T.Underlying().(*types.Basic); ok {
			switch b.Kind() {
			case types.Uint8:
				fx.em.Assert(fmt.Sprintf("(and (<= 0 %s) (<= %s 255))", v.S, v.S))
			case types.Uint, types.Uint16, types.Uint32, types.Uint64, types.Uintptr:
				fx.em.Assert(fmt.Sprintf("(<= 0 %s)", v.S))
			}
		}
	}
}

// logWrite: some location of heap `key` (unknown which) is written.
func (fx *FuncExec) logWrite(key string) {
	if fx.writeLog != nil {
		fx.writeLog[key] = true
	}
}

// logWriteAt: heap `key` is written at index `target` (an object reference, array id or map
// reference). Writes to objects allocated by this very execution of the code are not recorded:
// the loop frame leaves everything allocated after loop entry arbitrary anyway.
func (fx *FuncExec) logWriteAt(key, target string) {
	if fx.writeTargets == nil {
		fx.logWrite(key)
		return
	}
	if fx.freshRefs[target] && fx.em.born[target] > fx.discN1 {
		// allocated inside the loop body
		if fx.writeTargets[key] == nil {
			fx.writeTargets[key] = map[string]bool{}
		}
		return
	}
	if fx.writeTargets[key] == nil {
		fx.writeTargets[key] = map[string]bool{}
	}
	fx.writeTargets[key][target] = true
}

func (fx *FuncExec) Store(st *State, l *Loc, v Val) {
	if l.Kind == LGhost {
		h := fx.heapTerm(st, l.GKey, fmt.Sprintf("(Array Int %s)", l.GSort), l.Owner)
		st.heaps[l.GKey] = fx.em.DefineRaw(l.GKey, fmt.Sprintf("(Array Int %s)", l.GSort), sto(h, l.Ref, v.S))
		fx.logWriteAt(l.GKey, l.Ref)
		return
	}
	if v.S == "" && v.Loc == nil && v.Fn == nil {
		panic(toolLimit("store of non-term value at %s", fx.locString(l)))
	}
	if v.S == "" {
		if l.Kind == LCell {
			st.cells[l.Cell] = v
			if fx.cellLog != nil {
				fx.cellLog[l.Cell] = true
			}
			return
		}
		// a function value or address stored into the heap: opaque reference
		v = Val{T: v.T, S: fx.em.Fresh("opaque", SInt), Sort: SInt}
	}
	switch l.Kind {
	case LCell:
		st.cells[l.Cell] = v
		if fx.cellLog != nil {
			fx.cellLog[l.Cell] = true
		}
	case LField:
		key, h := fx.fieldHeap(st, l.Owner, l.OwnerS, l.Field)
		fs := fx.em.SortOf(l.T)
		st.heaps[key] = fx.em.DefineRaw(key, arrSort(fs), sto(h, l.Ref, v.S))
		fx.logWriteAt(key, l.Ref)
	case LElem:
		key := elemKey(l.T)
		es := fx.em.SortOf(l.T)
		h := fx.heapTerm(st, key, arr2Sort(es), l.T)
		st.heaps[key] = fx.em.DefineRaw(key, arr2Sort(es), sto(h, l.Arr, sto(sel(h, l.Arr), l.Idx, v.S)))
		fx.logWriteAt(key, l.Arr)
	case LSub:
		p := fx.Load(st, l.Parent)
		pst := l.Parent.T.Underlying().(*types.Struct)
		var parts []string
		for i := 0; i < pst.NumFields(); i++ {
			if i == l.Field {
				parts = append(parts, v.S)
			} else {
				parts = append(parts, fmt.Sprintf("(%s %s)", fx.em.fieldSel(p.Sort, pst, i), p.S))
			}
		}
		nv := Val{T: l.Parent.T, S: fmt.Sprintf("(mk_%s %s)", p.Sort, strings.Join(parts, " ")), Sort: p.Sort}
		fx.Store(st, l.Parent, nv)
	case LGlobal:
		key := globalKey(l.Global)
		s := fx.em.SortOf(l.T)
		fx.heapTerm(st, key, string(s), l.T)
		fx.heapInfos[key].pkgs = []string{l.Global.Pkg.Pkg.Path()}
		st.heaps[key] = fx.em.Define(key, s, v.S)
		fx.logWrite(key)
	case LPtr:
		fx.StoreThrough(st, Val{T: l.PT, S: l.Ref, Sort: SInt}, v)
	case LGhost:
		h := fx.heapTerm(st, l.GKey, fmt.Sprintf("(Array Int %s)", l.GSort), l.Owner)
		st.heaps[l.GKey] = fx.em.DefineRaw(l.GKey, fmt.Sprintf("(Array Int %s)", l.GSort), sto(h, l.Ref, v.S))
		fx.logWriteAt(l.GKey, l.Ref)
	}
}

// ---- pointers -------------------------------------------------------------------------------------

// locOf turns a pointer value into a location (for pointers to non-struct types held as refs).
func (fx *FuncExec) locOf(v Val) *Loc {
	if v.Loc != nil {
		return v.Loc
	}
	pt, ok := v.T.Underlying().(*types.Pointer)
	if !ok {
		panic(toolLimit("locOf: not a pointer: %v", v.T))
	}
	return &Loc{Kind: LPtr, Ref: v.S, T: pt.Elem(), PT: v.T}
}

// Deref loads *p.
func (fx *FuncExec) Deref(st *State, p Val) Val {
	if p.Loc != nil {
		return fx.Load(st, p.Loc)
	}
	pt, ok := p.T.Underlying().(*types.Pointer)
	if !ok {
		panic(toolLimit("deref of non-pointer %v", p.T))
	}
	el := pt.Elem()
	if sty, ok := el.Underlying().(*types.Struct); ok {
		// whole-struct load from the per-field heaps
		s := fx.em.SortOf(el)
		var parts []string
		for i := 0; i < sty.NumFields(); i++ {
			_, h := fx.fieldHeap(st, el, sty, i)
			parts = append(parts, sel(h, p.S))
		}
		if len(parts) == 0 {
			parts = []string{"0"}
		}
		return Val{T: el, S: fmt.Sprintf("(mk_%s %s)", s, strings.Join(parts, " ")), Sort: s}
	}
	if _, ok := el.Underlying().(*types.Array); ok {
		panic(toolLimit("array value load"))
	}
	s := fx.em.SortOf(el)
	key := ptrKey(el)
	h := fx.heapTerm(st, key, arrSort(s), el)
	return fx.loaded(Val{T: el, S: sel(h, p.S), Sort: s})
}

func (fx *FuncExec) StoreThrough(st *State, p Val, v Val) {
	if p.Loc != nil {
		fx.Store(st, p.Loc, v)
		return
	}
	pt := p.T.Underlying().(*types.Pointer)
	el := pt.Elem()
	if sty, ok := el.Underlying().(*types.Struct); ok {
		for i := 0; i < sty.NumFields(); i++ {
			key, h := fx.fieldHeap(st, el, sty, i)
			fs := fx.em.SortOf(sty.Field(i).Type())
			fv := fmt.Sprintf("(%s %s)", fx.em.fieldSel(v.Sort, sty, i), v.S)
			st.heaps[key] = fx.em.DefineRaw(key, arrSort(fs), sto(h, p.S, fv))
			fx.logWriteAt(key, p.S)
		}
		return
	}
	if v.S == "" {
		v = Val{T: v.T, S: fx.em.Fresh("opaque", SInt), Sort: SInt}
	}
	s := fx.em.SortOf(el)
	key := ptrKey(el)
	h := fx.heapTerm(st, key, arrSort(s), el)
	st.heaps[key] = fx.em.DefineRaw(key, arrSort(s), sto(h, p.S, v.S))
	fx.logWriteAt(key, p.S)
}

// NewRef allocates a fresh object reference (distinct from everything allocated before).
func (fx *FuncExec) NewRef(st *State, what string) string {
	top := fx.heapTerm(st, topKey, "Int", nil)
	r := fx.em.Define("new:"+what, SInt, add(top, "1"))
	st.heaps[topKey] = r
	fx.freshRefs[r] = true
	return r
}

// ---- merge ----------------------------------------------------------------------------------------

type incoming struct {
	st   *State
	cond string // edge condition (already includes st.pc)
}

func (fx *FuncExec) Merge(ins []incoming, what string) *State {
	if len(ins) == 1 {
		n := ins[0].st.Clone()
		n.pc = ins[0].cond
		return n
	}
	n := ins[0].st.Clone()
	var conds []string
	for _, in := range ins {
		conds = append(conds, in.cond)
	}
	n.pc = fx.em.Define("pc:"+what, SBool, or(conds...))
	// cells
	keys := map[ssa.Value]bool{}
	for _, in := range ins {
		for k := range in.st.cells {
			keys[k] = true
		}
	}
	for k := range keys {
		// captured variables and pointer-parameter cells are created lazily at their first use: a path
		// that never touched one still holds its entry value (not "no value")
		switch k.(type) {
		case *ssa.FreeVar, *ssa.Parameter:
			if pt, ok := k.Type().Underlying().(*types.Pointer); ok {
				for _, in := range ins {
					if _, have := in.st.cells[k]; !have {
						fx.Load(in.st, &Loc{Kind: LCell, Cell: k, T: pt.Elem()})
					}
				}
			}
		}
		var vs []Val
		var cs []string
		for _, in := range ins {
			if v, ok := in.st.cells[k]; ok {
				vs = append(vs, v)
				cs = append(cs, in.cond)
			}
		}
		same := true
		for _, v := range vs[1:] {
			if v.S != vs[0].S || v.Loc != vs[0].Loc || v.Fn != vs[0].Fn {
				same = false
			}
		}
		if same {
			n.cells[k] = vs[0]
			continue
		}
		if vs[0].S == "" {
			// differing non-term values (closures/addresses): forget
			delete(n.cells, k)
			continue
		}
		t := vs[len(vs)-1].S
		for i := len(vs) - 2; i >= 0; i-- {
			t = ite(cs[i], vs[i].S, t)
		}
		n.cells[k] = Val{T: vs[0].T, S: fx.em.Define("m:"+k.Name(), vs[0].Sort, t), Sort: vs[0].Sort}
	}
	// heaps
	hk := map[string]bool{}
	for _, in := range ins {
		for k := range in.st.heaps {
			hk[k] = true
		}
	}
	for k := range hk {
		get := func(s *State) string {
			if h, ok := s.heaps[k]; ok {
				return h
			}
			return q(k)
		}
		first := get(ins[0].st)
		same := true
		for _, in := range ins[1:] {
			if get(in.st) != first {
				same = false
			}
		}
		if same {
			n.heaps[k] = first
			continue
		}
		t := get(ins[len(ins)-1].st)
		for i := len(ins) - 2; i >= 0; i-- {
			t = ite(ins[i].cond, get(ins[i].st), t)
		}
		n.heaps[k] = fx.em.DefineRaw(k, fx.heapInfos[k].sortText, t)
	}
	// rlocks: read-mode flags merge like held conditions
	{
		rk := map[string]bool{}
		for _, in := range ins {
			for k := range in.st.rlocks {
				rk[k] = true
			}
		}
		n.rlocks = map[string]string{}
		for k := range rk {
			get := func(s *State) string {
				if h, ok := s.rlocks[k]; ok {
					return h
				}
				return "false"
			}
			t := get(ins[len(ins)-1].st)
			same := true
			for _, in := range ins {
				if get(in.st) != t {
					same = false
				}
			}
			if !same {
				for i := len(ins) - 2; i >= 0; i-- {
					t = ite(ins[i].cond, get(ins[i].st), t)
				}
				t = fx.em.Define("rmode", SBool, t)
			}
			n.rlocks[k] = t
		}
	}
	// rets: kept only where all incoming paths agree (a call site lies on one path)
	n.rets = map[string]Val{}
	for k, v := range ins[0].st.rets {
		same := true
		for _, in := range ins[1:] {
			if w, ok := in.st.rets[k]; !ok || w.S != v.S || len(w.Tup) != len(v.Tup) {
				same = false
				break
			}
		}
		if same {
			n.rets[k] = v
		}
	}
	for _, in := range ins[1:] {
		for k, v := range in.st.rets {
			if _, ok := n.rets[k]; ok {
				continue
			}
			// present on some paths only: the value is meaningful on those paths (the call was made)
			present := true
			for _, in2 := range ins {
				if w, ok := in2.st.rets[k]; ok && (w.S != v.S || len(w.Tup) != len(v.Tup)) {
					present = false
				}
			}
			if present {
				n.rets[k] = v
			}
		}
	}
	for k, v := range ins[0].st.rets {
		if _, ok := n.rets[k]; !ok {
			present := true
			for _, in2 := range ins {
				if w, ok := in2.st.rets[k]; ok && (w.S != v.S || len(w.Tup) != len(v.Tup)) {
					present = false
				}
			}
			if present {
				n.rets[k] = v
			}
		}
	}
	// calledIter: same merge as called
	{
		ck := map[string]bool{}
		for _, in := range ins {
			for k := range in.st.calledIter {
				ck[k] = true
			}
		}
		n.calledIter = map[string]string{}
		for k := range ck {
			get := func(s *State) string {
				if h, ok := s.calledIter[k]; ok {
					return h
				}
				return "false"
			}
			t := get(ins[len(ins)-1].st)
			for i := len(ins) - 2; i >= 0; i-- {
				t = ite(ins[i].cond, get(ins[i].st), t)
			}
			n.calledIter[k] = fx.em.Define("calledIter", SBool, t)
		}
	}
	// called: merges like a held condition
	ck := map[string]bool{}
	for _, in := range ins {
		for k := range in.st.called {
			ck[k] = true
		}
	}
	if n.called == nil {
		n.called = map[string]string{}
	}
	for k := range ck {
		get := func(s *State) string {
			if h, ok := s.called[k]; ok {
				return h
			}
			return "false"
		}
		t := get(ins[len(ins)-1].st)
		for i := len(ins) - 2; i >= 0; i-- {
			t = ite(ins[i].cond, get(ins[i].st), t)
		}
		n.called[k] = fx.em.Define("called", SBool, t)
	}
	// locks: held condition merges
	lk := map[string]bool{}
	for _, in := range ins {
		for k := range in.st.locks {
			lk[k] = true
		}
	}
	for k := range lk {
		get := func(s *State) string {
			if h, ok := s.locks[k]; ok {
				return h
			}
			return "false"
		}
		t := get(ins[len(ins)-1].st)
		for i := len(ins) - 2; i >= 0; i-- {
			t = ite(ins[i].cond, get(ins[i].st), t)
		}
		n.locks[k] = fx.em.Define("held", SBool, t)
		for _, in := range ins {
			if li, ok := in.st.lockInfo[k]; ok {
				n.lockInfo[k] = li
			}
			if ls, ok := in.st.lastSeen[k]; ok {
				n.lastSeen[k] = ls
			}
		}
	}
	// defers: one entry per defer statement; its condition is the disjunction over the incoming paths
	// that registered it ("true" if every path did, unconditionally)
	{
		var order []*ssa.Defer
		conds := map[*ssa.Defer][]string{}
		uncond := map[*ssa.Defer]int{}
		for _, in := range ins {
			seen := map[*ssa.Defer]bool{}
			for _, d := range in.st.defers {
				if seen[d.d] {
					continue // the same statement registered twice on one path (loops) is run once: a limitation
				}
				seen[d.d] = true
				if _, ok := conds[d.d]; !ok {
					order = append(order, d.d)
				}
				conds[d.d] = append(conds[d.d], and(in.cond, d.cond))
				if d.cond == "true" {
					uncond[d.d]++
				}
			}
		}
		n.defers = nil
		for _, d := range order {
			if uncond[d] == len(ins) {
				n.defers = append(n.defers, deferRec{d: d, cond: "true"})
			} else {
				n.defers = append(n.defers, deferRec{d: d, cond: fx.em.Define("deferred", SBool, or(conds[d]...))})
			}
		}
	}
	for _, in := range ins {
		for k, v := range in.st.labels {
			n.labels[k] = v
		}
	}
	return n
}
