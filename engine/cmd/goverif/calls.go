package main

// Calls: builtins, contracts, frames, locks, guarded fields.

import (
	"fmt"
	"go/ast"
	"go/token"
	"go/types"
	"regexp"
	"sort"
	"strings"

	"golang.org/x/tools/go/ssa"
)

var purePkgs = map[string]bool{"fmt": true, "strings": true, "strconv": true, "errors": true, "unicode": true,
	"unicode/utf8": true, "bytes": true, "math": true, "path": true, "path/filepath": true, "regexp": true,
	"time": true, "html": true, "net/url": true, "slices": true, "maps": true, "encoding/json": true, "os": true,
	"io": true, "context": true, "runtime": true, "reflect": true, "sync/atomic": true, "math/rand": true, "crypto/md5": true,
	"encoding/hex": true, "encoding/base64": true, "bufio": true, "os/exec": true, "syscall": true, "os/signal": true, "sort": true, "sync": true}

func (fx *FuncExec) execGo(st *State, g *ssa.Go) {
	// spawn event: arguments are evaluated, the body is not interleaved
	c := g.Common()
	for _, a := range c.Args {
		fx.val(st, a)
	}
	// the spawn itself is observable in contracts: called("go:<callee>")
	name, _, _, _ := fx.calleeName(c, st)
	short := name
	if i := strings.LastIndex(short, ":"); i >= 0 && !strings.HasPrefix(short, "dynamic") {
		short = short[i+1:]
	}
	if st.called == nil {
		st.called = map[string]string{}
	}
	st.called["go:"+short] = "true"
}

func (fx *FuncExec) calleeName(c *ssa.CallCommon, st *State) (name string, fn *ssa.Function, binds []Val, recv *Val) {
	if c.IsInvoke() {
		r := fx.val(st, c.Value)
		it := c.Value.Type()
		if fx.fc != nil {
			if cl, ok := fx.fc.Dispatch["("+typeKey(it)+")"]; ok {
				// `dispatch`: the dynamic type is proved to be the named concrete type, so this
				// invoke is a call of that type's method
				env := fx.specEnv(st, fx.entry)
				ct := fx.specType(env, cl.Expr)
				fx.oblige("dispatch", st, eq("(i.tag "+r.S+")", fmt.Sprintf("%d", fx.em.Tag(ct))),
					fmt.Sprintf("the dynamic type of the %s receiver is %s", typeKey(it), typeKey(ct)), c.Pos())
				if m := fx.V.prog.LookupMethod(ct, c.Method.Pkg(), c.Method.Name()); m != nil {
					s := fx.em.SortOf(ct)
					rv := Val{T: ct, Sort: s, S: fx.em.Unbox("(i.val "+r.S+")", s)}
					return fx.V.funcKey(m), m, nil, &rv
				}
				panic(toolLimit("dispatch: %s has no method %s", typeKey(ct), c.Method.Name()))
			}
		}
		return "(" + typeKey(it) + ")." + c.Method.Name(), nil, nil, &r
	}
	switch v := c.Value.(type) {
	case *ssa.Function:
		return fx.V.funcKey(v), v, nil, nil
	case *ssa.MakeClosure:
		f := v.Fn.(*ssa.Function)
		var bs []Val
		for _, b := range v.Bindings {
			bs = append(bs, fx.val(st, b))
		}
		return fx.V.funcKey(f), f, bs, nil
	case *ssa.Builtin:
		return "builtin:" + v.Name(), nil, nil, nil
	}
	cv := fx.val(st, c.Value)
	if cv.Fn != nil {
		return fx.V.funcKey(cv.Fn), cv.Fn, cv.Bind, nil
	}
	// dynamic call through a function value: name it after the source expression where possible
	n := "dynamic"
	if u, ok := c.Value.(*ssa.UnOp); ok {
		if a, ok := u.X.(*ssa.Alloc); ok && a.Comment != "" {
			n = "dynamic:" + a.Comment
		}
		if fv, ok := u.X.(*ssa.FreeVar); ok {
			n = "dynamic:" + fv.Name() // a captured function variable
		}
		if g, ok := u.X.(*ssa.Global); ok {
			n = "dynamic:" + g.Name() // a package-level function variable
		}
	}
	if lk, ok := c.Value.(*ssa.Lookup); ok {
		if u, ok := lk.X.(*ssa.UnOp); ok {
			if g, ok := u.X.(*ssa.Global); ok {
				n = "dynamic:" + g.Name() + "[]" // a function taken from a package-level map
			}
		}
	}
	return n, nil, nil, nil
}

// execCall runs a call and remembers what it returned under "<callee>#<static ordinal>" (spec: ret("f#N"),
// ret("f#N", i) for the i-th result): contracts can then speak about "the value the N-th call of f gave
// back" without naming the local it was stored in.
func (fx *FuncExec) execCall(st *State, instr ssa.Instruction, c *ssa.CallCommon, deferred bool) Val {
	res := fx.execCallInner(st, instr, c, deferred)
	if name, ok := fx.callNames[instr]; ok {
		ord := 0
		if o, ok := fx.callOrdStatic[instr]; ok {
			ord = o
		}
		if ord > 0 {
			if st.rets == nil {
				st.rets = map[string]Val{}
			}
			st.rets[fmt.Sprintf("%s#%d", name, ord)] = res
		}
	}
	return res
}

func (fx *FuncExec) execCallInner(st *State, instr ssa.Instruction, c *ssa.CallCommon, deferred bool) Val {
	name, fn, binds, recv := fx.calleeName(c, st)
	var args []Val
	if c.IsInvoke() && fn != nil && recv != nil {
		args = append(args, *recv) // dispatched invoke: the unboxed receiver is the first argument
		recv = nil
	}
	for _, a := range c.Args {
		args = append(args, fx.val(st, a))
	}
	rt := c.Signature().Results()
	var resT types.Type = rt
	if rt.Len() == 1 {
		resT = rt.At(0).Type()
	}
	if b, ok := c.Value.(*ssa.Builtin); ok && !c.IsInvoke() {
		return fx.execBuiltin(st, instr, b, args, instr.(ssa.Value))
	}
	// call-site ordinal and assertions
	short := name
	if i := strings.LastIndex(short, ":"); i >= 0 && !strings.HasPrefix(short, "dynamic") {
		short = short[i+1:]
	}
	fx.callOrd[short]++
	ord := fx.callOrd[short]
	if st.called == nil {
		st.called = map[string]string{}
	}
	prevCalled, hadPrev := st.called[short]
	if !hadPrev {
		prevCalled = "false"
	}
	fx.curCallShort, fx.curCallPrev = short, prevCalled
	defer func() { fx.curCallShort, fx.curCallPrev = "", "" }()
	if fx.callLog != nil {
		fx.callLog[short] = true
	}
	st.called[short] = "true"
	if st.calledIter == nil {
		st.calledIter = map[string]string{}
	}
	st.calledIter[short] = "true"
	if fx.callNames == nil {
		fx.callNames = map[ssa.Instruction]string{}
	}
	fx.callNames[instr] = short
	if fx.callOrdStatic != nil {
		// ordinals follow source order (computed after the first discovery pass)
		if o, ok := fx.callOrdStatic[instr]; ok {
			ord = o
		}
	}
	var siteFrame *CallSiteSpec
	if fx.fc != nil {
		for _, cs := range fx.fc.Calls {
			if (cs.Callee == short || (cs.Ordinal == -1 && strings.HasSuffix(cs.Callee, "*") && strings.HasPrefix(short, strings.TrimSuffix(cs.Callee, "*")))) && (cs.Ordinal == ord || cs.Ordinal == -1 || (cs.Ordinal == -2 && fx.lineOf(instr.Pos(), cs.LineHas))) {
				if cs.HasFrame {
					siteFrame = cs
				}
				env := fx.specEnv(st, fx.entry)
				fx.withLoop(env, st)
				env.callArgs = args
				if recv != nil {
					env = env.with("recv", *recv)
				}
				if fn == nil && !c.IsInvoke() {
					// a call through a function value: `callee` names that value
					if cv := fx.val(st, c.Value); cv.S != "" {
						env = env.with("callee", cv)
					}
				}
				for _, a := range cs.Asserts {
					// evaluated in the discovery passes too (heap keys), obliged only in the real pass
					fx.obligeClause("assert@call", st, env, a, fmt.Sprintf("at call %s#%d: %s", short, ord, a.Text), instr.Pos())
				}
				fx.usedCallSites[cs] = true
			}
		}
	}
	if recv != nil {
		fx.oblige("nil", st, not(eq("(i.tag "+recv.S+")", "0")), "method call on nil interface value: "+name, instr.Pos())
	}
	// locks and atomics
	if fn != nil {
		full := fn.String()
		switch full {
		case "(*sync.Mutex).Lock", "(*sync.RWMutex).Lock", "(*sync.RWMutex).RLock":
			fx.execLock(st, args[0], instr.Pos())
			// remember the mode: a read lock does not license writes to the guarded state
			if key, _, _, _ := fx.lockTarget(args[0]); key != "" {
				if st.rlocks == nil {
					st.rlocks = map[string]string{}
				}
				if full == "(*sync.RWMutex).RLock" {
					st.rlocks[key] = "true"
				} else {
					st.rlocks[key] = "false"
				}
			}
			return Val{}
		case "(*sync.Mutex).Unlock", "(*sync.RWMutex).Unlock", "(*sync.RWMutex).RUnlock":
			fx.execUnlock(st, args[0], instr.Pos())
			return Val{}
		}
	}
	// contract?
	var fc *FuncContract
	if fn != nil {
		fc = fx.V.contractFor(fn)
	} else {
		fc = fx.V.contracts.Funcs[name]
	}
	if fc != nil && fc == fx.fc && fn == fx.fn {
		// recursion: use own contract
	}
	if fc != nil {
		fx.usedContracts[name] = true
		fx.curSiteFrame = siteFrame
		defer func() { fx.curSiteFrame = nil }()
		return fx.applyContract(st, instr, fc, fn, name, args, binds, recv, resT)
	}
	// no contract
	res := Val{}
	if rt.Len() > 0 {
		res = fx.freshVal(resT, "ret:"+short, st)
	}
	var pkg *types.Package
	if fn != nil && fn.Pkg != nil {
		pkg = fn.Pkg.Pkg
	} else if fn != nil && fn.Origin() != nil && fn.Origin().Pkg != nil {
		pkg = fn.Origin().Pkg.Pkg
	} else if fn != nil && fn.Parent() != nil && fn.Parent().Pkg != nil {
		pkg = fn.Parent().Pkg.Pkg
	} else if c.IsInvoke() {
		if n, ok := c.Value.Type().(*types.Named); ok && n.Obj().Pkg() != nil {
			pkg = n.Obj().Pkg()
		}
	}
	switch {
	case siteFrame != nil:
		// trusted frame declared at the call site for a contract-less callee
		fx.callStats["site-frame"]++
		fx.assumptions[fmt.Sprintf("trusted frame at call %s in %s: modifies %s", short, fx.relName(), frameText(siteFrame))] = true
		env := fx.specEnv(st, st)
		fx.withLoop(env, st)
		for _, m := range siteFrame.Frame {
			fx.havocLocation(st, env, m)
		}
		fx.bumpTop(st, res)
	case fn != nil && fx.V.inferPure(fn):
		fx.callStats["inferred-pure"]++
	case pkg != nil && purePkgs[pkg.Path()] && !hasFuncArg(args):
		fx.callStats["stdlib-no-frame"]++
		fx.havocArgs(st, args, false)
		fx.bumpTop(st, res)
	default:
		fx.callStats["import-closure-havoc"]++
		if fx.havocNames == nil {
			fx.havocNames = map[string]bool{}
		}
		fx.havocNames[short] = true
		fx.havocByRule(st, pkg, args, binds, name)
		fx.bumpTop(st, res)
	}
	fx.refFacts(st, res)
	return res
}

// lineOf: does the source line of pos contain text? (call sites addressed by their source text)
func (fx *FuncExec) lineOf(pos token.Pos, text string) bool {
	if pos == token.NoPos {
		return false
	}
	p := fx.V.prog.Fset.Position(pos)
	return strings.Contains(fx.V.sourceLine(p.Filename, p.Line), text)
}

func frameText(cs *CallSiteSpec) string {
	if len(cs.Frame) == 0 {
		return "nothing"
	}
	var t []string
	for _, c := range cs.Frame {
		t = append(t, c.Text)
	}
	return strings.Join(t, ", ")
}

func hasFuncArg(args []Val) bool {
	for _, a := range args {
		if a.Fn != nil {
			return true
		}
	}
	return false
}

func (fx *FuncExec) bumpTop(st *State, res Val) {
	top := fx.heapTerm(st, topKey, "Int", nil)
	nt := fx.em.Fresh("top", SInt)
	fx.em.Assert(fmt.Sprintf("(>= %s %s)", nt, top))
	st.heaps[topKey] = nt
	fx.logWrite(topKey)
}

func (fx *FuncExec) refFacts(st *State, res Val) {
	top := fx.heapTerm(st, topKey, "Int", nil)
	var walk func(v Val)
	walk = func(v Val) {
		for _, t := range v.Tup {
			walk(t)
		}
		if v.S != "" && v.T != nil && isRefType(v.T) {
			fx.em.Assert(fmt.Sprintf("(<= %s %s)", v.S, top))
		}
		if v.S != "" && v.Sort == SSlice {
			// backing arrays of existing slices were allocated earlier
			fx.em.Assert(fmt.Sprintf("(<= (s.arr %s) %s)", v.S, top))
		}
	}
	walk(res)
}

// havocArgs: what is reachable from the arguments one level deep may be modified by the callee
// (slice contents, pointees). With deep=false only pointer cells and slice contents of
// non-constant data are havocked.
func (fx *FuncExec) havocArgs(st *State, args []Val, deep bool) {
	for _, a := range args {
		if a.Fn != nil {
			for _, b := range a.Bind {
				if b.Loc != nil && b.Loc.Kind == LCell {
					if old, ok := st.cells[b.Loc.Cell]; ok && old.S != "" {
						nv := Val{T: old.T, Sort: old.Sort, S: fx.em.Fresh("cb:"+cellName(b.Loc.Cell), old.Sort)}
						fx.typeFacts(nv)
						st.cells[b.Loc.Cell] = nv
						if fx.cellLog != nil {
							fx.cellLog[b.Loc.Cell] = true
						}
					}
				}
			}
			continue
		}
		if a.Loc != nil {
			if a.Loc.Kind == LCell {
				continue
			}
			nv := fx.freshVal(a.Loc.T, "argcell", st)
			fx.Store(st, a.Loc, nv)
			continue
		}
		if a.T == nil || a.S == "" {
			continue
		}
		switch t := a.T.Underlying().(type) {
		case *types.Pointer:
			if !deep {
				if _, isStruct := t.Elem().Underlying().(*types.Struct); isStruct {
					continue
				}
			}
			if sty, ok := t.Elem().Underlying().(*types.Struct); ok {
				for i := 0; i < sty.NumFields(); i++ {
					key, h := fx.fieldHeap(st, t.Elem(), sty, i)
					fs := fx.em.SortOf(sty.Field(i).Type())
					st.heaps[key] = fx.em.DefineRaw(key, arrSort(fs), sto(h, a.S, fx.em.Fresh("argfld", fs)))
					fx.logWriteAt(key, a.S)
				}
			} else if _, isArr := t.Elem().Underlying().(*types.Array); !isArr {
				fx.StoreThrough(st, a, fx.freshVal(t.Elem(), "argptr", st))
			}
		case *types.Slice:
			if !deep {
				// pure-package callees do not write into slices except the documented few; keep contents
				continue
			}
			es := fx.em.SortOf(t.Elem())
			key := elemKey(t.Elem())
			h := fx.heapTerm(st, key, arr2Sort(es), t.Elem())
			st.heaps[key] = fx.em.DefineRaw(key, arr2Sort(es), sto(h, "(s.arr "+a.S+")", fx.em.FreshRaw("argarr", arrSort(es))))
			fx.logWriteAt(key, "(s.arr "+a.S+")")
		}
	}
}

// havocByRule implements the import-closure frame rule (DESIGN Appendix D.3 / assumption A10).
func (fx *FuncExec) havocByRule(st *State, pkg *types.Package, args []Val, binds []Val, name string) {
	keys := make([]string, 0, len(fx.heapInfos))
	for k := range fx.heapInfos {
		keys = append(keys, k)
	}
	sort.Strings(keys)
	var clos map[string]bool
	murex := false
	if pkg != nil {
		clos = fx.V.importClosure(pkg.Path())
		murex = strings.HasPrefix(pkg.Path(), "github.com/lmorg/murex")
	}
	for _, k := range keys {
		if k == topKey || strings.Contains(k, ".$") {
			continue // ghost state is only changed by ghost updates and contracts that name it
		}
		hi := fx.heapInfos[k]
		apply := false
		if pkg != nil {
			apply = true
			named := false
			for _, p := range hi.pkgs {
				if p == "" {
					continue
				}
				named = true
				if !clos[p] {
					apply = false
				}
			}
			if !named {
				// memory of universe-only types ([]byte, *int, map[string]string ...): any package
				// can hold it, but only what it was given. Other packages reach ours only through
				// the arguments of this call (handled below); code of the same package may also
				// reach it through package-level state.
				apply = pkg.Path() == fx.V.fnPkg(fx.fn).Path()
			}
		}
		if apply {
			if _, ok := st.heaps[k]; !ok {
				fx.heapTerm(st, k, hi.sortText, nil)
			}
			st.heaps[k] = fx.em.FreshRaw("havoc:"+k, hi.sortText)
			fx.logWrite(k)
		}
	}
	fx.havocArgs(st, args, true)
	// captured cells may be written by any callee that can reach the closure
	all := append([]Val{}, args...)
	for _, a := range all {
		_ = a
	}
	if murex || pkg == nil {
		var cs []ssa.Value
		for c := range fx.captured {
			cs = append(cs, c)
		}
		sort.Slice(cs, func(i, j int) bool { return cs[i].Name() < cs[j].Name() })
		for _, c := range cs {
			created := false
			for _, mc := range fx.capturedAt[c] {
				if fx.mayFollow(mc, fx.curInstr) {
					created = true
				}
			}
			if !created {
				continue // no closure writing this cell exists yet
			}
			if old, ok := st.cells[c]; ok && old.S != "" {
				nv := Val{T: old.T, Sort: old.Sort, S: fx.em.Fresh("captured:"+cellName(c), old.Sort)}
				fx.typeFacts(nv)
				st.cells[c] = nv
				if fx.cellLog != nil {
					fx.cellLog[c] = true
				}
			}
		}
	}
}

// ---- contracts at call sites -------------------------------------------------------------------------------

func (fx *FuncExec) applyContract(st *State, instr ssa.Instruction, fc *FuncContract, fn *ssa.Function, name string,
	args []Val, binds []Val, recv *Val, resT types.Type) Val {
	pre := st.Clone()
	bind := map[string]Val{}
	if fn != nil {
		// parameter names come from the signature (bodies of other packages may not be built)
		sig := fn.Signature
		k := 0
		if sig.Recv() != nil && len(args) > 0 {
			bind[sig.Recv().Name()] = args[0]
			bind["recv"] = args[0]
			k = 1
		}
		for i := 0; i < sig.Params().Len() && k+i < len(args); i++ {
			if n := sig.Params().At(i).Name(); n != "" && n != "_" {
				bind[n] = args[k+i]
			}
			bind[fmt.Sprintf("a%d", i)] = args[k+i]
		}
		for i, fv := range fn.FreeVars {
			if i < len(binds) {
				// a captured variable: contracts name its current value, not the address of its cell
				if binds[i].Loc != nil && binds[i].S == "" {
					bind[fv.Name()] = fx.Load(st, binds[i].Loc)
				} else {
					bind[fv.Name()] = binds[i]
				}
			}
		}
	} else {
		// interface method / dynamic: parameters are named recv, a0, a1 … and by signature names
		if recv != nil {
			bind["recv"] = *recv
		}
		sig := instr.(ssa.CallInstruction).Common().Signature()
		for i, a := range args {
			bind[fmt.Sprintf("a%d", i)] = a
			if i < sig.Params().Len() && sig.Params().At(i).Name() != "" {
				bind[sig.Params().At(i).Name()] = a
			}
		}
	}
	env := &SpecEnv{fx: fx, cur: st, old: pre, bind: bind, calleeFn: fn, calleeMode: true}
	for _, r := range fc.Requires {
		fx.oblige("pre@call", st, fx.evalBool(env, r), fmt.Sprintf("precondition of %s: %s", name, r.Text), instr.Pos())
	}
	// frame
	switch {
	case fc.Pure || fc.ModNothing:
		if fc.Fresh {
			fx.bumpTop(st, Val{}) // the result is a new object: the allocation watermark moves
		}
	case fc.HasMod:
		for _, m := range fc.Modifies {
			fx.havocLocation(st, env, m)
		}
		fx.bumpTop(st, Val{})
	case fx.curSiteFrame != nil:
		// the callee's contract states no frame: the trusted frame declared at this call site applies
		fx.assumptions[fmt.Sprintf("trusted frame at call %s in %s: modifies %s", shortName(name), fx.relName(), frameText(fx.curSiteFrame))] = true
		fenv := fx.specEnv(st, st)
		fx.withLoop(fenv, st)
		for _, m := range fx.curSiteFrame.Frame {
			fx.havocLocation(st, fenv, m)
		}
		fx.bumpTop(st, Val{})
	default:
		var pkg *types.Package
		if fn != nil && fn.Pkg != nil {
			pkg = fn.Pkg.Pkg
		}
		if pkg != nil && purePkgs[pkg.Path()] {
			fx.havocArgs(st, args, false)
		} else {
			fx.havocByRule(st, pkg, args, binds, name)
		}
		fx.bumpTop(st, Val{})
	}
	res := Val{}
	if tup, ok := resT.(*types.Tuple); !ok || tup.Len() > 0 {
		res = fx.freshVal(resT, "ret:"+shortName(name), st)
	}
	if fc.Fresh && res.S != "" {
		fx.assume(st, fmt.Sprintf("(> %s %s)", res.S, pre.heaps[topKey]))
		fx.assume(st, fmt.Sprintf("(<= %s %s)", res.S, st.heaps[topKey]))
		fx.freshRefs[res.S] = true
	}
	fx.refFacts(st, res)
	env2 := &SpecEnv{fx: fx, cur: st, old: pre, bind: bind, calleeFn: fn, calleeMode: true}
	if res.Tup != nil {
		env2.results = res.Tup
	} else if res.S != "" {
		env2.results = []Val{res}
	}
	for _, e := range fc.Ensures {
		// a postcondition that mentions the callee's locals says nothing a caller can use: not
		// assuming it is sound. The same holds for the callee's own call events (called, calledsince,
		// ret): evaluated here they would speak about the CALLER's calls.
		if strings.Contains(e.Text, "called(") || strings.Contains(e.Text, "calledsince(") || strings.Contains(e.Text, "ret(") {
			continue
		}
		if e.Assumed {
			fx.assumptions[fmt.Sprintf("trusted clause of %s (assumed at call sites, not checked): %s", shortName(name), e.Text)] = true
		}
		func() {
			defer func() {
				if r := recover(); r != nil {
					if tl, ok := r.(toolLimitErr); ok && !(fc.Trusted && strings.Contains(tl.msg, "unknown identifier")) && (strings.Contains(tl.msg, "unknown identifier") || strings.Contains(tl.msg, "no state labelled") || strings.Contains(tl.msg, "no such range loop")) {
						return
					}
					panic(r)
				}
			}()
			fx.assume(st, fx.evalBool(env2, e))
		}()
	}
	fx.callStats["contract"]++
	return res
}

func shortName(n string) string {
	if i := strings.LastIndex(n, ":"); i >= 0 {
		return n[i+1:]
	}
	return n
}

// havocLocation interprets one `modifies` entry.
func (fx *FuncExec) havocLocation(st *State, env *SpecEnv, m Clause) {
	e := m.Expr
	if call, ok := e.(*ast.CallExpr); ok {
		if id, ok := call.Fun.(*ast.Ident); ok {
			switch id.Name {
			case "elems":
				s := fx.evalSpec(&SpecEnv{fx: fx, cur: env.old, old: env.old, bind: env.bind, calleeFn: env.calleeFn, calleeMode: env.calleeMode}, call.Args[0])
				el := s.T.Underlying().(*types.Slice).Elem()
				es := fx.em.SortOf(el)
				key := elemKey(el)
				h := fx.heapTerm(st, key, arr2Sort(es), el)
				st.heaps[key] = fx.em.DefineRaw(key, arr2Sort(es), sto(h, "(s.arr "+s.S+")", fx.em.FreshRaw("mod", arrSort(es))))
				fx.logWriteAt(key, "(s.arr "+s.S+")")
				return
			case "mapof":
				mv := fx.evalSpec(&SpecEnv{fx: fx, cur: env.old, old: env.old, bind: env.bind, calleeFn: env.calleeFn, calleeMode: env.calleeMode}, call.Args[0])
				mt := mv.T.Underlying().(*types.Map)
				dk, vk, dh, vh := fx.mapHeaps(st, mt)
				ks, vs := fx.em.SortOf(mt.Key()), fx.em.SortOf(mt.Elem())
				st.heaps[dk] = fx.em.DefineRaw(dk, fx.heapInfos[dk].sortText, sto(dh, mv.S, fx.em.FreshRaw("mod", fmt.Sprintf("(Array %s Bool)", ks))))
				st.heaps[vk] = fx.em.DefineRaw(vk, fx.heapInfos[vk].sortText, sto(vh, mv.S, fx.em.FreshRaw("mod", fmt.Sprintf("(Array %s %s)", ks, vs))))
				fx.logWriteAt(dk, mv.S)
				fx.logWriteAt(vk, mv.S)
				return
			case "all":
				// all(T.f): the whole field heap
				l := fx.evalLoc(&SpecEnv{fx: fx, cur: env.old, old: env.old, bind: env.bind, calleeFn: env.calleeFn, calleeMode: env.calleeMode}, call.Args[0])
				if l.Kind != LField {
					panic(toolLimit("%s: all() needs a field location", m.Src))
				}
				key, _ := fx.fieldHeap(st, l.Owner, l.OwnerS, l.Field)
				st.heaps[key] = fx.em.FreshRaw("mod:"+key, fx.heapInfos[key].sortText)
				fx.logWrite(key)
				return
			}
		}
	}
	l := fx.evalLoc(&SpecEnv{fx: fx, cur: env.old, old: env.old, bind: env.bind, calleeFn: env.calleeFn, calleeMode: env.calleeMode, loop: env.loop, idxState: env.idxState}, e)
	if l.Kind == LGhost {
		fx.Store(st, l, Val{Sort: Sort(l.GSort), S: fx.em.FreshRaw("mod:ghost", l.GSort)})
		return
	}
	nv := fx.freshVal(l.T, "mod", st)
	fx.Store(st, l, nv)
}

// ---- frame check ---------------------------------------------------------------------------------------------

func (fx *FuncExec) checkFrame(exit *State, env *SpecEnv) {
	// locations the contract allows to change, per heap key
	type allowed struct {
		refs  []string
		whole bool
	}
	allow := map[string]*allowed{}
	get := func(k string) *allowed {
		if allow[k] == nil {
			allow[k] = &allowed{}
		}
		return allow[k]
	}
	entryEnv := fx.specEnv(fx.entry, fx.entry)
	entryEnv.atReturn = false
	for _, m := range fx.fc.Modifies {
		if call, ok := m.Expr.(*ast.CallExpr); ok {
			if id, ok := call.Fun.(*ast.Ident); ok {
				switch id.Name {
				case "elems":
					s := fx.evalSpec(entryEnv, call.Args[0])
					el := s.T.Underlying().(*types.Slice).Elem()
					get(elemKey(el)).refs = append(get(elemKey(el)).refs, "(s.arr "+s.S+")")
					continue
				case "mapof":
					mv := fx.evalSpec(entryEnv, call.Args[0])
					dk, vk := mapKeys(mv.T.Underlying().(*types.Map))
					get(dk).refs = append(get(dk).refs, mv.S)
					get(vk).refs = append(get(vk).refs, mv.S)
					continue
				case "all":
					l := fx.evalLoc(entryEnv, call.Args[0])
					get(fieldKey(l.Owner, l.OwnerS, l.Field)).whole = true
					continue
				}
			}
		}
		l := fx.evalLoc(entryEnv, m.Expr)
		switch l.Kind {
		case LField:
			k := fieldKey(l.Owner, l.OwnerS, l.Field)
			get(k).refs = append(get(k).refs, l.Ref)
		case LPtr:
			get(ptrKey(l.T)).refs = append(get(ptrKey(l.T)).refs, l.Ref)
		case LGlobal:
			get(globalKey(l.Global)).whole = true
		case LElem:
			get(elemKey(l.T)).refs = append(get(elemKey(l.T)).refs, l.Arr)
		case LSub:
			root := l
			for root.Kind == LSub {
				root = root.Parent
			}
			if root.Kind == LField {
				k := fieldKey(root.Owner, root.OwnerS, root.Field)
				get(k).refs = append(get(k).refs, root.Ref)
			}
		}
	}
	top0 := fx.entry.heaps[topKey]
	var keys []string
	for k := range fx.heapInfos {
		keys = append(keys, k)
	}
	sort.Strings(keys)
	for _, k := range keys {
		if k == topKey || strings.Contains(k, ".$") {
			continue
		}
		h1, ok1 := exit.heaps[k]
		h0, ok0 := fx.entry.heaps[k]
		if !ok1 || !ok0 || h1 == h0 {
			continue
		}
		a := allow[k]
		if a != nil && a.whole {
			continue
		}
		var goal string
		if k[0] == 'G' {
			goal = eq(h1, h0)
		} else {
			cond := []string{"(<= r " + top0 + ")", "(not (= r 0))"}
			if a != nil {
				for _, r := range a.refs {
					cond = append(cond, not(eq("r", r)))
				}
			}
			for _, r := range fx.envWrites[k] {
				cond = append(cond, not(eq("r", r)))
			}
			goal = fmt.Sprintf("(forall ((r Int)) (=> %s (= (select %s r) (select %s r))))", and(cond...), h1, h0)
		}
		fx.oblige("frame", exit, goal, "nothing outside `modifies` changes in "+k, fx.fn.Pos())
	}
}

// ---- builtins --------------------------------------------------------------------------------------------------

func (fx *FuncExec) execBuiltin(st *State, instr ssa.Instruction, b *ssa.Builtin, args []Val, self ssa.Value) Val {
	iv := func(s string) Val { return Val{T: types.Typ[types.Int], Sort: SInt, S: s} }
	switch b.Name() {
	case "len":
		a := args[0]
		switch a.Sort {
		case SSlice:
			return iv("(s.len " + a.S + ")")
		case SStr:
			return iv("(gs.len " + a.S + ")")
		case SInt:
			if _, ok := a.T.Underlying().(*types.Map); ok {
				return iv(fx.mapLen(st, a))
			}
			if pt, ok := a.T.Underlying().(*types.Pointer); ok {
				if at, ok := pt.Elem().Underlying().(*types.Array); ok {
					return iv(fmt.Sprintf("%d", at.Len()))
				}
			}
			r := fx.em.Fresh("chanlen", SInt)
			fx.em.Assert("(>= " + r + " 0)")
			return iv(r)
		}
	case "cap":
		if args[0].Sort == SSlice {
			return iv("(s.cap " + args[0].S + ")")
		}
	case "append":
		return fx.execAppend(st, instr, args[0], args[1], self.Type())
	case "copy":
		return fx.execCopy(st, instr, args[0], args[1])
	case "delete":
		m := args[0].T.Underlying().(*types.Map)
		dk, _, dh, _ := fx.mapHeaps(st, m)
		fx.checkGuardMap(st, instr.(ssa.CallInstruction).Common().Args[0], instr.Pos())
		oldDom := sel(dh, args[0].S)
		newDom := sto(oldDom, args[1].S, "false")
		fx.em.Assert(eq(fx.mapCard(m, newDom), ite(sel(oldDom, args[1].S), fmt.Sprintf("(- %s 1)", fx.mapCard(m, oldDom)), fx.mapCard(m, oldDom))))
		st.heaps[dk] = fx.em.DefineRaw(dk, fx.heapInfos[dk].sortText, ite(eq(args[0].S, "0"), dh, sto(dh, args[0].S, newDom)))
		fx.logWriteAt(dk, args[0].S)
		return Val{}
	case "print", "println":
		return Val{}
	case "recover":
		return Val{T: self.Type(), Sort: SIface, S: "(mkIface 0 0)"}
	case "close":
		return Val{}
	case "min", "max":
		if args[0].Sort == SInt && len(args) == 2 {
			c := fmt.Sprintf("(< %s %s)", args[0].S, args[1].S)
			if b.Name() == "min" {
				return iv(ite(c, args[0].S, args[1].S))
			}
			return iv(ite(c, args[1].S, args[0].S))
		}
	case "ssa:wrapnilchk":
		return args[0]
	case "ssa:deferstack":
		return Val{T: self.Type(), Sort: SInt, S: "0"}
	case "clear":
	}
	panic(toolLimit("builtin %s on %v", b.Name(), args[0].T))
}

func (fx *FuncExec) execAppend(st *State, instr ssa.Instruction, s, xs Val, rt types.Type) Val {
	el := rt.Underlying().(*types.Slice).Elem()
	es := fx.em.SortOf(el)
	key := elemKey(el)
	h := fx.heapTerm(st, key, arr2Sort(es), el)
	var xlen string
	var xat func(i string) string
	if xs.Sort == SStr {
		xlen = "(gs.len " + xs.S + ")"
		xat = func(i string) string { return fmt.Sprintf("(gs.at %s %s)", xs.S, i) }
	} else {
		xlen = "(s.len " + xs.S + ")"
		xat = func(i string) string {
			return sel(sel(h, "(s.arr "+xs.S+")"), add("(s.off "+xs.S+")", i))
		}
	}
	slen := "(s.len " + s.S + ")"
	n := fx.em.Define("app.n", SInt, add(slen, xlen))
	inplace := fx.em.Define("app.inplace", SBool, fmt.Sprintf("(<= %s (s.cap %s))", n, s.S))
	narr := fx.NewRef(st, "arr")
	ncap := fx.em.Fresh("app.cap", SInt)
	fx.em.Assert(fmt.Sprintf("(>= %s %s)", ncap, n))
	arrR := fx.em.Define("app.arr", SInt, ite(inplace, "(s.arr "+s.S+")", narr))
	offR := fx.em.Define("app.off", SInt, ite(inplace, "(s.off "+s.S+")", "0"))
	// base contents: the old array (in place) or a copy of the old prefix
	cp := fx.em.FreshRaw("app.copy", arrSort(es))
	fx.em.Assert(fmt.Sprintf("(forall ((i Int)) (! (=> (and (<= 0 i) (< i %s)) (= (select %s i) (select (select %s (s.arr %s)) (+ (s.off %s) i)))) :pattern ((select %s i))))",
		slen, cp, h, s.S, s.S, cp))
	base := fx.em.DefineRaw("app.base", arrSort(es), ite(inplace, sel(h, "(s.arr "+s.S+")"), cp))
	var inner string
	if xs.Known == 2 { // exactly one element
		inner = sto(base, add(offR, slen), xat("0"))
	} else if xs.Known == 1 {
		inner = base
	} else {
		inner = fx.em.FreshRaw("app.inner", arrSort(es))
		lo := add(offR, slen)
		fx.em.Assert(fmt.Sprintf("(forall ((j Int)) (! (= (select %s j) (ite (and (<= %s j) (< j (+ %s %s))) %s (select %s j))) :pattern ((select %s j))))",
			inner, lo, lo, xlen, xat("(- j "+lo+")"), base, inner))
	}
	st.heaps[key] = fx.em.DefineRaw(key, arr2Sort(es), sto(h, arrR, inner))
	fx.logWriteAt(key, "(s.arr "+s.S+")") // the reallocated array is fresh
	return Val{T: rt, Sort: SSlice, S: fmt.Sprintf("(mkSlice %s %s %s %s)", arrR, offR, n, ite(inplace, "(s.cap "+s.S+")", ncap))}
}

func (fx *FuncExec) execCopy(st *State, instr ssa.Instruction, dst, src Val) Val {
	el := dst.T.Underlying().(*types.Slice).Elem()
	es := fx.em.SortOf(el)
	key := elemKey(el)
	h := fx.heapTerm(st, key, arr2Sort(es), el)
	var slen string
	var sat func(i string) string
	if src.Sort == SStr {
		slen = "(gs.len " + src.S + ")"
		sat = func(i string) string { return fmt.Sprintf("(gs.at %s %s)", src.S, i) }
	} else {
		slen = "(s.len " + src.S + ")"
		sat = func(i string) string { return sel(sel(h, "(s.arr "+src.S+")"), add("(s.off "+src.S+")", i)) }
	}
	n := fx.em.Define("copy.n", SInt, ite(fmt.Sprintf("(< (s.len %s) %s)", dst.S, slen), "(s.len "+dst.S+")", slen))
	inner := fx.em.FreshRaw("copy.inner", arrSort(es))
	lo := "(s.off " + dst.S + ")"
	fx.em.Assert(fmt.Sprintf("(forall ((j Int)) (! (= (select %s j) (ite (and (<= %s j) (< j (+ %s %s))) %s (select (select %s (s.arr %s)) j))) :pattern ((select %s j))))",
		inner, lo, lo, n, sat("(- j "+lo+")"), h, dst.S, inner))
	st.heaps[key] = fx.em.DefineRaw(key, arr2Sort(es), sto(h, "(s.arr "+dst.S+")", inner))
	fx.logWriteAt(key, "(s.arr "+dst.S+")")
	return Val{T: types.Typ[types.Int], Sort: SInt, S: n}
}

// ---- locks -------------------------------------------------------------------------------------------------------

func (fx *FuncExec) lockTarget(mu Val) (key string, obj string, owner types.Type, ts *TypeSpec) {
	l := mu.Loc
	if l == nil {
		return "", "", nil, nil
	}
	// embedded: &o.mutex  (LField)   or nested
	for l != nil && l.Kind == LSub {
		l = l.Parent
	}
	if l == nil || l.Kind != LField {
		return "", "", nil, nil
	}
	key = fx.canonKey(fx.locString(mu.Loc))
	ts = fx.V.contracts.Types[typeKey(l.Owner)]
	return key, l.Ref, l.Owner, ts
}

func (fx *FuncExec) execLock(st *State, mu Val, pos token.Pos) {
	key, obj, owner, ts := fx.lockTarget(mu)
	fx.lockOrd = fx.staticOrd("Lock")
	if key == "" {
		fx.note("a lock that is not a struct field was ignored")
		return
	}
	held, ok := st.locks[key]
	if !ok {
		held = "false"
	}
	fx.oblige("relock", st, not(held), "lock "+key+" is not already held (self-deadlock)", pos)
	st.locks[key] = "true"
	rec := &lockRec{Obj: obj, TS: ts}
	if ts != nil && ts.GuardedBy == fx.lockFieldName(mu) {
		sty := owner.Underlying().(*types.Struct)
		for _, g := range ts.Guarded {
			fi := fieldIndex(sty, g)
			if fi < 0 {
				panic(toolLimit("type %s has no field %s (guarded_by)", ts.Name, g))
			}
			ft := sty.Field(fi).Type()
			// other goroutines may have changed the contents of a guarded map
			if mt, ok := ft.Underlying().(*types.Map); ok {
				cur := fx.Load(st, &Loc{Kind: LField, Ref: obj, Owner: owner, OwnerS: sty, Field: fi, T: ft})
				dk, vk, dh, vh := fx.mapHeaps(st, mt)
				ks, vs := fx.em.SortOf(mt.Key()), fx.em.SortOf(mt.Elem())
				st.heaps[dk] = fx.em.DefineRaw(dk, fx.heapInfos[dk].sortText, sto(dh, cur.S, fx.em.FreshRaw("lock", fmt.Sprintf("(Array %s Bool)", ks))))
				st.heaps[vk] = fx.em.DefineRaw(vk, fx.heapInfos[vk].sortText, sto(vh, cur.S, fx.em.FreshRaw("lock", fmt.Sprintf("(Array %s %s)", ks, vs))))
				fx.logWriteAt(dk, cur.S)
				fx.logWriteAt(vk, cur.S)
				fx.envWrite(dk, cur.S)
				fx.envWrite(vk, cur.S)
				continue // the map reference itself is stable unless a guarantee says otherwise
			}
			nv := fx.freshVal(ft, "lock:"+g, st)
			fx.refFacts(st, nv)
			if nv.Sort == SSlice {
				// A5: a slice held in a guarded field does not share its backing array with the
				// slices this function was given (representation exposure is not checked)
				for _, p := range fx.fn.Params {
					if pv, ok := fx.vals[p]; ok && pv.Sort == SSlice {
						fx.assume(st, or(eq("(s.arr "+nv.S+")", "0"), not(eq("(s.arr "+nv.S+")", "(s.arr "+pv.S+")"))))
					}
				}
				fx.note("A5: guarded slice fields do not alias the function's slice parameters")
			}
			fx.Store(st, &Loc{Kind: LField, Ref: obj, Owner: owner, OwnerS: sty, Field: fi, T: ft}, nv)
			fx.envWrite(fieldKey(owner, sty, fi), obj)
		}
		// ghost fields are part of the protected state
		var gn []string
		for g := range ts.Ghost {
			gn = append(gn, g)
		}
		sort.Strings(gn)
		for _, g := range gn {
			gs, _ := ghostSort(ts.Ghost[g])
			key := "F:" + ts.Name + ".$" + g
			h := fx.heapTerm(st, key, gs, owner)
			st.heaps[key] = fx.em.DefineRaw(key, gs, sto(h, obj, fx.em.FreshRaw("lock:$"+g, ghostElemSort(ts.Ghost[g]))))
			fx.logWriteAt(key, obj)
		}
		self := Val{T: types.NewPointer(owner), Sort: SInt, S: obj}
		env := &SpecEnv{fx: fx, cur: st, old: st, bind: map[string]Val{"self": self}, calleeMode: true, pkgOf: owner}
		for _, inv := range ts.Invariants {
			fx.assume(st, fx.evalBool(env, inv))
		}
		last, ok := st.lastSeen[key]
		if !ok && !fx.freshRefs[obj] {
			// rely: whatever other goroutines did since this function was entered obeys the
			// guarantee (its reflexive-transitive closure), so the entry state is a valid baseline
			last, ok = fx.entry, true
		}
		if ok {
			envG := &SpecEnv{fx: fx, cur: st, old: last, bind: map[string]Val{"self": self}, calleeMode: true, pkgOf: owner}
			for _, g := range ts.Guarantees {
				fx.assume(st, fx.evalBool(envG, g))
			}
		}
	}
	rec.AtLock = st.Clone()
	st.labels[fmt.Sprintf("lock%d", fx.lockOrd)] = rec.AtLock
	st.lockInfo[key] = rec
}

// envWrite records that location (key, ref) was havocked to model other goroutines; the frame
// check speaks about this function's own writes to state that is not lock-protected
func (fx *FuncExec) envWrite(key, ref string) {
	if fx.discard > 0 {
		return
	}
	if fx.envWrites == nil {
		fx.envWrites = map[string][]string{}
	}
	fx.envWrites[key] = append(fx.envWrites[key], ref)
}

func ghostSort(s string) (string, error) {
	return fmt.Sprintf("(Array Int %s)", ghostElemSort(s)), nil
}

func ghostElemSort(s string) string {
	switch s {
	case "seq":
		return "(Array Int Int)"
	case "int":
		return "Int"
	case "bool":
		return "Bool"
	case "string":
		return "Str"
	}
	return s
}

func (fx *FuncExec) lockFieldName(mu Val) string {
	l := mu.Loc
	for l != nil && l.Kind == LSub {
		l = l.Parent
	}
	if l != nil && l.Kind == LField {
		return l.OwnerS.Field(l.Field).Name()
	}
	return ""
}

func fieldIndex(s *types.Struct, name string) int {
	for i := 0; i < s.NumFields(); i++ {
		if s.Field(i).Name() == name {
			return i
		}
	}
	return -1
}

func (fx *FuncExec) execUnlock(st *State, mu Val, pos token.Pos) {
	key, obj, owner, ts := fx.lockTarget(mu)
	fx.unlockOrd = fx.staticOrd("Unlock")
	if key == "" {
		return
	}
	rec := st.lockInfo[key]
	if ts != nil && rec != nil && ts.GuardedBy == fx.lockFieldName(mu) {
		self := Val{T: types.NewPointer(owner), Sort: SInt, S: obj}
		// ghost updates attached to this unlock
		if fx.fc != nil {
			for _, g := range fx.fc.Ghost {
				if g.At == fmt.Sprintf("unlock %d", fx.unlockOrd) {
					fx.applyGhost(st, g)
				}
			}
		}
		if fx.fc != nil {
			// `at unlock #N assert e`: two-state assertion over this critical section (old = at the Lock)
			for _, us := range fx.fc.Unlocks {
				if us.Ordinal == -1 || us.Ordinal == fx.unlockOrd {
					uenv := fx.specEnv(st, rec.AtLock)
					for _, a := range us.Asserts {
						fx.obligeClause("assert@unlock", st, uenv, a, fmt.Sprintf("at unlock #%d: %s", fx.unlockOrd, a.Text), pos)
					}
				}
			}
		}
		env := &SpecEnv{fx: fx, cur: st, old: rec.AtLock, bind: map[string]Val{"self": self}, calleeMode: true, pkgOf: owner}
		for _, inv := range ts.Invariants {
			fx.oblige("lockinv", st, fx.evalBool(env, inv), fmt.Sprintf("invariant of %s re-established at unlock: %s", ts.Name, inv.Text), pos)
		}
		for _, g := range ts.Guarantees {
			fx.oblige("guarantee", st, fx.evalBool(env, g), fmt.Sprintf("critical section obeys guarantee of %s: %s", ts.Name, g.Text), pos)
		}
	}
	st.locks[key] = "false"
	st.lastSeen[key] = st.Clone()
}

func (fx *FuncExec) applyGhost(st *State, g GhostUpdate) {
	env := fx.specEnv(st, fx.entry)
	l := fx.evalLoc(env, g.LHS.Expr)
	v := fx.evalSpec(env, g.RHS.Expr)
	fx.Store(st, l, v)
}

// checkGuard: a guarded field of a non-fresh object may only be touched with its lock held.
func (fx *FuncExec) checkGuard(st *State, addr Val, pos token.Pos, rw string) {
	l := addr.Loc
	if l == nil {
		return
	}
	for l.Kind == LSub {
		l = l.Parent
	}
	if l.Kind != LField || l.Owner == nil {
		return
	}
	ts := fx.V.contracts.Types[typeKey(l.Owner)]
	if ts != nil && len(ts.Atomic) > 0 && !fx.freshRefs[l.Ref] {
		an := l.OwnerS.Field(l.Field).Name()
		for _, a := range ts.Atomic {
			if a == an {
				// a field declared `atomic` is only ever touched through sync/atomic (those are
				// calls taking its address, not loads/stores)
				fx.oblige("guard", st, "false", fmt.Sprintf("plain %s of %s.%s, which is declared atomic (sync/atomic only)", rw, ts.Name, an), pos)
			}
		}
	}
	if ts == nil || ts.GuardedBy == "" {
		return
	}
	fname := l.OwnerS.Field(l.Field).Name()
	guarded := false
	for _, g := range ts.Guarded {
		if g == fname {
			guarded = true
		}
	}
	if !guarded {
		return
	}
	if fx.freshRefs[l.Ref] {
		return
	}
	mi := fieldIndex(l.OwnerS, ts.GuardedBy)
	key := fx.canonKey(fmt.Sprintf("%s[%s]", fieldKey(l.Owner, l.OwnerS, mi), l.Ref))
	held, ok := st.locks[key]
	if !ok {
		held = "false"
	}
	if fx.fc != nil {
		// `requires held(x.mutex)` is recorded as an initially held lock
	}
	fx.oblige("guard", st, held, fmt.Sprintf("%s of guarded field %s.%s without holding %s", rw, ts.Name, fname, ts.GuardedBy), pos)
	if rw == "write" {
		if rm, ok := st.rlocks[key]; ok && rm != "false" {
			fx.oblige("guard", st, not(and(held, rm)), fmt.Sprintf("write of guarded field %s.%s while holding %s only for reading (RLock)", ts.Name, fname, ts.GuardedBy), pos)
		}
	}
	if rw == "read" && held != "true" && l.T != nil {
		// an unlocked read may observe whatever other goroutines could have left there: any value
		// the guarantee allows relative to the state this function was entered in
		if _, isMap := l.T.Underlying().(*types.Map); !isMap && fx.em.SortOf(l.T) != "" {
			cur := fx.Load(st, l)
			nv := fx.freshVal(l.T, "racy:"+fname, st)
			fx.refFacts(st, nv)
			nv.S = fx.em.Define("racy", nv.Sort, ite(held, cur.S, nv.S))
			fx.Store(st, l, nv)
			self := Val{T: types.NewPointer(l.Owner), Sort: SInt, S: l.Ref}
			envG := &SpecEnv{fx: fx, cur: st, old: fx.entry, bind: map[string]Val{"self": self}, calleeMode: true, pkgOf: l.Owner}
			for _, g := range ts.Guarantees {
				// only guarantees that speak about this one field (a racy read of one field says
				// nothing consistent about the others)
				onlyThis := true
				for _, m := range reSelfField.FindAllStringSubmatch(g.Text, -1) {
					if m[1] != fname {
						onlyThis = false
					}
				}
				if !onlyThis {
					continue
				}
				fx.assume(st, fx.evalBool(envG, g))
			}
		}
	}
}

func (fx *FuncExec) checkGuardMap(st *State, m ssa.Value, pos token.Pos) {
	// the map value was loaded from a guarded field: the load itself was checked (lock held); what is
	// checked here is the MODE - a map reached through a guarded field must not be written while the
	// lock is held only for reading
	v := m
	for depth := 0; depth < 6; depth++ {
		switch x := v.(type) {
		case *ssa.Lookup:
			v = x.X
			continue
		case *ssa.UnOp:
			fa, ok := x.X.(*ssa.FieldAddr)
			if !ok {
				return
			}
			av, ok := fx.vals[fa]
			if !ok || av.Loc == nil {
				return
			}
			l := av.Loc
			for l.Kind == LSub {
				l = l.Parent
			}
			if l.Kind != LField || l.Owner == nil {
				return
			}
			ts := fx.V.contracts.Types[typeKey(l.Owner)]
			if ts == nil || ts.GuardedBy == "" {
				return
			}
			fname := l.OwnerS.Field(l.Field).Name()
			guarded := false
			for _, g := range ts.Guarded {
				if g == fname {
					guarded = true
				}
			}
			if !guarded || fx.freshRefs[l.Ref] {
				return
			}
			mi := fieldIndex(l.OwnerS, ts.GuardedBy)
			key := fx.canonKey(fmt.Sprintf("%s[%s]", fieldKey(l.Owner, l.OwnerS, mi), l.Ref))
			if rm, ok := st.rlocks[key]; ok && rm != "false" {
				held := st.locks[key]
				if held == "" {
					held = "false"
				}
				fx.oblige("guard", st, not(and(held, rm)), fmt.Sprintf("write to the map in guarded field %s.%s while holding %s only for reading (RLock)", ts.Name, fname, ts.GuardedBy), pos)
			}
			return
		default:
			return
		}
	}
}

// staticOrd numbers the Lock (resp. Unlock) calls of the function in source order, so that
// `old@lockN` and `ghost at unlock N` do not depend on the order blocks are executed in.
func (fx *FuncExec) staticOrd(kind string) int {
	if fx.lockOrds == nil {
		fx.lockOrds = map[ssa.Instruction]int{}
		type rec struct {
			in  ssa.Instruction
			pos token.Pos
		}
		var locks, unlocks []rec
		for _, b := range fx.fn.Blocks {
			for _, in := range b.Instrs {
				ci, ok := in.(ssa.CallInstruction)
				if !ok {
					continue
				}
				f, ok := ci.Common().Value.(*ssa.Function)
				if !ok {
					continue
				}
				switch f.String() {
				case "(*sync.Mutex).Lock", "(*sync.RWMutex).Lock", "(*sync.RWMutex).RLock":
					locks = append(locks, rec{in, in.Pos()})
				case "(*sync.Mutex).Unlock", "(*sync.RWMutex).Unlock", "(*sync.RWMutex).RUnlock":
					unlocks = append(unlocks, rec{in, in.Pos()})
				}
			}
		}
		sort.SliceStable(locks, func(i, j int) bool { return locks[i].pos < locks[j].pos })
		sort.SliceStable(unlocks, func(i, j int) bool { return unlocks[i].pos < unlocks[j].pos })
		for i, r := range locks {
			fx.lockOrds[r.in] = i + 1
		}
		for i, r := range unlocks {
			fx.lockOrds[r.in] = i + 1
		}
	}
	return fx.lockOrds[fx.curInstr]
}

var reSelfField = regexp.MustCompile(`self\.(\$?[A-Za-z_][A-Za-z0-9_]*)`)

// canonKey unfolds every definition in a lock key so that two loads of the same pointer (which get
// different names) denote the same lock.
func (fx *FuncExec) canonKey(k string) string {
	if x, ok := fx.em.expandStable(k, -1); ok {
		return x
	}
	return k
}
