package main

// Evaluation of contract expressions (Go expression syntax + a few call-shaped forms) over a
// symbolic state.

import (
	"sort"
	"fmt"
	"go/ast"
	"go/constant"
	"go/token"
	"go/types"
	"strconv"
	"strings"

	"golang.org/x/tools/go/ssa"
)

type SpecEnv struct {
	fx         *FuncExec
	cur, old   *State
	oldCells   *State
	bind       map[string]Val
	results    []Val
	atReturn   bool
	calleeMode bool
	calleeFn   *ssa.Function
	pkgOf      types.Type
	callArgs   []Val
	inOld      bool
	clauseSrc  string
	loop       *loopInfo
	idxState   *State
	pol        int         // polarity of the position being evaluated: +1, -1, 0 (unknown)
	rec        *[]quantRec // where positively occurring universal quantifiers are recorded
	inQuant    bool
}

// quantRec: a universally quantified sub-formula (text) occurring positively in a clause, with its
// bound variable and body, so that the engine can instantiate/skolemize it itself.
type quantRec struct {
	text, bound, body string
	exists            bool
	sort              string // sort of the bound variable ("" = Int)
}

func (env *SpecEnv) flipped(to int) *SpecEnv {
	n := *env
	n.pol = to
	return &n
}

// rangeIndex finds the hidden index cell of a `for … range` loop (robust against renaming of the
// loop variables): the alloc named "rangeindex" that is stored to in the loop head.
func (li *loopInfo) rangeIndex() *ssa.Alloc {
	for _, in := range li.head.Instrs {
		if s, ok := in.(*ssa.Store); ok {
			if a, ok := s.Addr.(*ssa.Alloc); ok && a.Comment == "rangeindex" {
				return a
			}
		}
	}
	return nil
}

func (fx *FuncExec) specEnv(cur, old *State) *SpecEnv {
	return &SpecEnv{fx: fx, cur: cur, old: old, bind: map[string]Val{}}
}

func (env *SpecEnv) with(name string, v Val) *SpecEnv {
	n := *env
	n.bind = map[string]Val{}
	for k, x := range env.bind {
		n.bind[k] = x
	}
	n.bind[name] = v
	return &n
}

func (env *SpecEnv) state() *State { return env.cur }

type specErr struct{ msg string }

func (fx *FuncExec) specFail(env *SpecEnv, f string, a ...any) {
	panic(toolLimit("contract %s: %s", env.clauseSrc, fmt.Sprintf(f, a...)))
}

func (fx *FuncExec) evalBool(env *SpecEnv, c Clause) string {
	e2 := *env
	e2.clauseSrc = c.Src + " `" + c.Text + "`"
	var recs []quantRec
	e2.pol = 1
	e2.rec = &recs
	v := fx.evalSpec(&e2, c.Expr)
	if v.Sort != SBool {
		fx.specFail(&e2, "expression is not boolean (sort %s)", v.Sort)
	}
	if len(recs) > 0 {
		fx.quantsOf[v.S] = recs
	}
	return v.S
}

var nilVal = Val{S: "nil", Sort: "Nil"}

func (fx *FuncExec) coerceNil(a, b Val) (Val, Val) {
	fix := func(n Val, o Val) Val {
		switch o.Sort {
		case SIface:
			return Val{T: o.T, Sort: SIface, S: "(mkIface 0 0)"}
		case SSlice:
			return Val{T: o.T, Sort: SSlice, S: "(mkSlice 0 0 0 0)"}
		case SStr:
			return Val{T: o.T, Sort: SStr, S: fx.em.StrLit("")}
		}
		return Val{T: o.T, Sort: SInt, S: "0"}
	}
	if a.Sort == "Nil" {
		a = fix(a, b)
	}
	if b.Sort == "Nil" {
		b = fix(b, a)
	}
	// untyped integer literal against float / bitvector
	if a.Sort == SInt && b.Sort == SF64 {
		a = Val{T: b.T, Sort: SF64, S: fmt.Sprintf("((_ to_fp 11 53) RNE (to_real %s))", a.S)}
	}
	if b.Sort == SInt && a.Sort == SF64 {
		b = Val{T: a.T, Sort: SF64, S: fmt.Sprintf("((_ to_fp 11 53) RNE (to_real %s))", b.S)}
	}
	if a.Sort == SInt && b.Sort == SBV {
		a = fx.convertSort(a, SBV, b.T)
	}
	if b.Sort == SInt && a.Sort == SBV {
		b = fx.convertSort(b, SBV, a.T)
	}
	return a, b
}

func (fx *FuncExec) evalSpec(env *SpecEnv, e ast.Expr) Val {
	switch x := e.(type) {
	case *ast.ParenExpr:
		return fx.evalSpec(env, x.X)
	case *ast.BasicLit:
		switch x.Kind {
		case token.INT:
			cv := constant.MakeFromLiteral(x.Value, token.INT, 0)
			v, _ := fx.em.ConstVal(cv, types.Typ[types.Int])
			return v
		case token.CHAR:
			r, _, _, err := strconv.UnquoteChar(x.Value[1:len(x.Value)-1], '\'')
			if err != nil {
				fx.specFail(env, "bad char literal %s", x.Value)
			}
			return Val{T: types.Typ[types.Rune], Sort: SInt, S: intLit(int64(r))}
		case token.STRING:
			s, err := strconv.Unquote(x.Value)
			if err != nil {
				fx.specFail(env, "bad string literal %s", x.Value)
			}
			return Val{T: types.Typ[types.String], Sort: SStr, S: fx.em.StrLit(s)}
		case token.FLOAT:
			f, _ := strconv.ParseFloat(x.Value, 64)
			return Val{T: types.Typ[types.Float64], Sort: SF64, S: f64Lit(f)}
		}
	case *ast.Ident:
		return fx.evalIdent(env, x.Name)
	case *ast.SelectorExpr:
		// package-qualified?
		if id, ok := x.X.(*ast.Ident); ok {
			if _, bound := env.bind[id.Name]; !bound {
				if pkg := fx.specPackage(env, id.Name); pkg != nil {
					if fx.lookupLocal(env, id.Name) == nil {
						return fx.pkgMember(env, pkg, x.Sel.Name)
					}
				}
			}
		}
		base := fx.evalSpec(env, x.X)
		return fx.selectField(env, base, x.Sel.Name)
	case *ast.StarExpr:
		p := fx.evalSpec(env, x.X)
		return fx.Deref(env.state(), p)
	case *ast.IndexExpr:
		base := fx.evalSpec(env, x.X)
		idx := fx.evalSpec(env, x.Index)
		return fx.indexVal(env, base, idx)
	case *ast.SliceExpr:
		base := fx.evalSpec(env, x.X)
		lo, hi := "0", ""
		if x.Low != nil {
			lo = fx.evalSpec(env, x.Low).S
		}
		switch base.Sort {
		case SSlice:
			hi = "(s.len " + base.S + ")"
			if x.High != nil {
				hi = fx.evalSpec(env, x.High).S
			}
			return Val{T: base.T, Sort: SSlice, S: fmt.Sprintf("(mkSlice (s.arr %s) (+ (s.off %s) %s) (- %s %s) (- (s.cap %s) %s))", base.S, base.S, lo, hi, lo, base.S, lo)}
		case SStr:
			hi = "(gs.len " + base.S + ")"
			if x.High != nil {
				hi = fx.evalSpec(env, x.High).S
			}
			return Val{T: base.T, Sort: SStr, S: fmt.Sprintf("(gs.sub %s %s %s)", base.S, lo, hi)}
		}
		fx.specFail(env, "cannot slice sort %s", base.Sort)
	case *ast.UnaryExpr:
		if x.Op == token.NOT {
			v := fx.evalSpec(env.flipped(-env.pol), x.X)
			return Val{T: v.T, Sort: SBool, S: not(v.S)}
		}
		v := fx.evalSpec(env, x.X)
		switch x.Op {
		case token.NOT:
			return Val{T: v.T, Sort: SBool, S: not(v.S)}
		case token.SUB:
			if v.Sort == SF64 {
				return Val{T: v.T, Sort: SF64, S: "(fp.neg " + v.S + ")"}
			}
			return Val{T: v.T, Sort: SInt, S: "(- " + v.S + ")"}
		case token.AND:
			l := fx.evalLoc(env, x.X)
			return Val{T: types.NewPointer(l.T), Loc: l}
		}
	case *ast.BinaryExpr:
		benv := env
		if x.Op == token.EQL || x.Op == token.NEQ {
			benv = env.flipped(0)
		}
		a := fx.evalSpec(benv, x.X)
		b := fx.evalSpec(benv, x.Y)
		a, b = fx.coerceNil(a, b)
		if a.Sort != b.Sort && !(x.Op == token.EQL || x.Op == token.NEQ) {
			fx.specFail(env, "operands of %v have sorts %s and %s", x.Op, a.Sort, b.Sort)
		}
		if (x.Op == token.EQL || x.Op == token.NEQ) && a.Sort != b.Sort && a.S != "" && b.S != "" {
			fx.specFail(env, "comparison of sorts %s and %s", a.Sort, b.Sort)
		}
		if strings.HasPrefix(string(a.Sort), "(Array") && (x.Op == token.EQL || x.Op == token.NEQ) {
			t := eq(a.S, b.S)
			if x.Op == token.NEQ {
				t = not(t)
			}
			return Val{Sort: SBool, S: t}
		}
		rt := a.T
		return fx.binop(env.state(), x.Op, a, b, rt, false)
	case *ast.CallExpr:
		return fx.evalSpecCall(env, x)
	case *ast.TypeAssertExpr:
		v := fx.evalSpec(env, x.X)
		t := fx.specType(env, x.Type)
		s := fx.em.SortOf(t)
		return Val{T: t, Sort: s, S: fx.em.Unbox("(i.val "+v.S+")", s)}
	}
	fx.specFail(env, "unsupported expression form %T", e)
	return Val{}
}

func (fx *FuncExec) specType(env *SpecEnv, e ast.Expr) types.Type {
	switch x := e.(type) {
	case *ast.Ident:
		// a type parameter of the (instantiated generic) function under contract: its type argument
		if tps, tas := fx.fn.TypeParams(), fx.fn.TypeArgs(); tps != nil && tps.Len() == len(tas) {
			for i := 0; i < tps.Len(); i++ {
				if tps.At(i).Obj().Name() == x.Name {
					return tas[i]
				}
			}
		}
		if obj := types.Universe.Lookup(x.Name); obj != nil {
			if tn, ok := obj.(*types.TypeName); ok {
				return tn.Type()
			}
		}
		if pkg := fx.homePkg(env); pkg != nil {
			if tn, ok := pkg.Scope().Lookup(x.Name).(*types.TypeName); ok {
				return tn.Type()
			}
		}
	case *ast.SelectorExpr:
		if id, ok := x.X.(*ast.Ident); ok {
			if pkg := fx.specPackage(env, id.Name); pkg != nil {
				if tn, ok := pkg.Scope().Lookup(x.Sel.Name).(*types.TypeName); ok {
					return tn.Type()
				}
			}
		}
	case *ast.StarExpr:
		return types.NewPointer(fx.specType(env, x.X))
	case *ast.ArrayType:
		if x.Len == nil {
			return types.NewSlice(fx.specType(env, x.Elt))
		}
	case *ast.InterfaceType:
		return types.NewInterfaceType(nil, nil)
	case *ast.MapType:
		return types.NewMap(fx.specType(env, x.Key), fx.specType(env, x.Value))
	}
	fx.specFail(env, "unknown type expression")
	return nil
}

func (fx *FuncExec) homePkg(env *SpecEnv) *types.Package {
	if env.pkgOf != nil {
		if n, ok := env.pkgOf.(*types.Named); ok && n.Obj().Pkg() != nil {
			return n.Obj().Pkg()
		}
	}
	fn := fx.fn
	if env.calleeMode && env.calleeFn != nil {
		fn = env.calleeFn
	}
	for fn != nil {
		if fn.Pkg != nil {
			return fn.Pkg.Pkg
		}
		if fn.Origin() != nil && fn.Origin().Pkg != nil {
			return fn.Origin().Pkg.Pkg
		}
		fn = fn.Parent()
	}
	return nil
}

func (fx *FuncExec) specPackage(env *SpecEnv, name string) *types.Package {
	home := fx.homePkg(env)
	if home == nil {
		return nil
	}
	for _, p := range home.Imports() {
		if p.Name() == name {
			return p
		}
	}
	// any loaded package with that name (extern contracts are not tied to a package)
	return fx.V.pkgByName[name]
}

func (fx *FuncExec) pkgMember(env *SpecEnv, pkg *types.Package, name string) Val {
	obj := pkg.Scope().Lookup(name)
	switch o := obj.(type) {
	case *types.Const:
		v, err := fx.em.ConstVal(o.Val(), o.Type())
		if err != nil {
			fx.specFail(env, "%v", err)
		}
		return v
	case *types.Var:
		sp := fx.V.prog.Package(pkg)
		if sp != nil {
			if g, ok := sp.Members[name].(*ssa.Global); ok {
				return fx.Load(env.state(), &Loc{Kind: LGlobal, Global: g, T: o.Type()})
			}
		}
	}
	fx.specFail(env, "%s.%s is not a constant or variable", pkg.Name(), name)
	return Val{}
}

// lookupLocal finds the alloc(s) with the given source name.
// underBinder evaluates the body of a quantifier: no top-level definitions or facts may mention the
// bound variable (the counter is restored even when the evaluation fails).
func (fx *FuncExec) underBinder(env *SpecEnv, e ast.Expr) Val {
	fx.em.quant++
	defer func() { fx.em.quant-- }()
	return fx.evalSpec(env, e)
}

func (fx *FuncExec) lookupLocal(env *SpecEnv, name string) []*ssa.Alloc {
	if env.calleeMode {
		return nil
	}
	want := name
	ord := 0
	if i := strings.Index(name, "ǂ"); i >= 0 {
		want = name[:i]
		ord, _ = strconv.Atoi(name[i+len("ǂ"):])
	}
	var out []*ssa.Alloc
	for _, b := range fx.fn.Blocks {
		for _, in := range b.Instrs {
			if a, ok := in.(*ssa.Alloc); ok && a.Comment == want {
				out = append(out, a)
			}
		}
	}
	if ord > 0 && ord <= len(out) {
		return out[ord-1 : ord]
	}
	return out
}

func (fx *FuncExec) evalIdent(env *SpecEnv, name string) Val {
	if v, ok := env.bind[name]; ok {
		return v
	}
	switch name {
	case "true":
		return Val{T: types.Typ[types.Bool], Sort: SBool, S: "true"}
	case "false":
		return Val{T: types.Typ[types.Bool], Sort: SBool, S: "false"}
	case "nil":
		return nilVal
	case "result", "result0":
		if len(env.results) > 0 {
			return env.results[0]
		}
		fx.specFail(env, "`result` used where no result is available")
	}
	if strings.HasPrefix(name, ghostPrefix+"idx") && len(name) > len(ghostPrefix+"idx") {
		// $idxN outside loop clauses: the current value of the range index cell of loop N (inside the
		// body: the iteration's index; after a normal exit: the length ranged over; after a break: the
		// index of the iteration that broke out)
		for _, li := range fx.loops {
			if li.name == name[len(ghostPrefix+"idx"):] {
				if a := li.rangeIndex(); a != nil {
					if cv, ok := env.cur.cells[a]; ok {
						return cv
					}
					// the loop has not been reached on this path
					return Val{T: types.Typ[types.Int], Sort: SInt, S: "(- 1)"}
				}
			}
		}
		fx.specFail(env, "%s: no such range loop", name)
	}
	if name == ghostPrefix+"idx" {
		if env.loop == nil {
			fx.specFail(env, "$idx used outside a loop clause")
		}
		a := env.loop.rangeIndex()
		if a == nil {
			fx.specFail(env, "$idx: loop %s is not a range loop over a slice", env.loop.name)
		}
		// $idx always denotes the index of the iteration the clause talks about, also inside old()
		st := env.cur
		if env.idxState != nil {
			st = env.idxState
		}
		if cv, ok := st.cells[a]; ok {
			return cv
		}
		fx.specFail(env, "$idx: range index not available here")
	}
	if strings.HasPrefix(name, "result") {
		if i, err := strconv.Atoi(name[6:]); err == nil && i < len(env.results) {
			return env.results[i]
		}
	}
	if strings.HasPrefix(name, "arg") && env.callArgs != nil {
		if i, err := strconv.Atoi(name[3:]); err == nil && i < len(env.callArgs) {
			return env.callArgs[i]
		}
	}
	if !env.calleeMode {
		// parameters: entry value in postconditions and inside old(); current cell otherwise
		if pv, ok := fx.paramVals[name]; ok && (env.atReturn || (env.inOld && env.oldCells == nil)) {
			return pv
		}
		as := fx.lookupLocal(env, name)
		st := env.cur
		if env.inOld && env.oldCells != nil {
			st = env.oldCells
		}
		var found []Val
		for _, a := range as {
			if v, ok := fx.vals[a]; ok && v.Loc != nil && v.Loc.Kind == LCell {
				if cv, ok := st.cells[a]; ok {
					found = append(found, cv)
				}
			} else if ok && v.S != "" {
				// escaped local: lives in the pointer heap / object heap
				found = append(found, fx.Deref(st, v))
			}
		}
		if len(found) == 1 {
			return found[0]
		}
		if len(found) > 1 {
			fx.specFail(env, "local name %q is ambiguous (%d variables in scope); use %sǂN", name, len(found), name)
		}
		if pv, ok := fx.paramVals[name]; ok {
			return pv
		}
		if len(as) == 1 {
			// the variable exists in the function but has not been allocated on this path yet (a loop
			// variable before the first iteration): its value is arbitrary
			pt := as[0].Type().Underlying().(*types.Pointer)
			return fx.freshVal(pt.Elem(), "unalloc:"+name, st)
		}
		// variables captured by this closure
		for _, fv := range fx.fn.FreeVars {
			if fv.Name() == name {
				if v, ok := fx.vals[fv]; ok && v.Loc != nil {
					return fx.Load(st, v.Loc)
				}
			}
		}
		// named results at return
	}
	// package level
	if pkg := fx.homePkg(env); pkg != nil {
		if obj := pkg.Scope().Lookup(name); obj != nil {
			return fx.pkgMember(env, pkg, name)
		}
	}
	fx.specFail(env, "unknown identifier %q", name)
	return Val{}
}

func (fx *FuncExec) selectField(env *SpecEnv, base Val, name string) Val {
	st := env.state()
	if strings.HasPrefix(name, ghostPrefix) {
		g := strings.TrimPrefix(name, ghostPrefix)
		pt, ok := base.T.Underlying().(*types.Pointer)
		if !ok {
			fx.specFail(env, "ghost field on non-pointer")
		}
		tk := typeKey(pt.Elem())
		ts := fx.V.contracts.Types[tk]
		if ts == nil || ts.Ghost[g] == "" {
			fx.specFail(env, "type %s has no ghost field $%s", tk, g)
		}
		gs, _ := ghostSort(ts.Ghost[g])
		key := "F:" + tk + ".$" + g
		h := fx.heapTerm(st, key, gs, pt.Elem())
		return Val{Sort: Sort(ghostElemSort(ts.Ghost[g])), S: sel(h, base.S), T: nil}
	}
	t := base.T
	if base.Loc != nil {
		t = types.NewPointer(base.Loc.T)
	}
	if t == nil {
		fx.specFail(env, "field %s of untyped value", name)
	}
	obj, idx, _ := types.LookupFieldOrMethod(t, true, fx.homePkgFor(t, env), name)
	if _, ok := obj.(*types.Var); !ok {
		fx.specFail(env, "type %s has no field %s", typeKey(t), name)
	}
	cur := base
	for _, i := range idx {
		cur = fx.fieldAt(env, cur, i)
	}
	return cur
}

func (fx *FuncExec) homePkgFor(t types.Type, env *SpecEnv) *types.Package {
	if p, ok := t.Underlying().(*types.Pointer); ok {
		t = p.Elem()
	}
	if n, ok := t.(*types.Named); ok && n.Obj().Pkg() != nil {
		return n.Obj().Pkg()
	}
	return fx.homePkg(env)
}

func (fx *FuncExec) fieldAt(env *SpecEnv, base Val, i int) Val {
	st := env.state()
	if base.Loc != nil {
		sty := base.Loc.T.Underlying().(*types.Struct)
		return fx.Load(st, &Loc{Kind: LSub, Parent: base.Loc, Field: i, T: sty.Field(i).Type()})
	}
	switch u := base.T.Underlying().(type) {
	case *types.Pointer:
		sty, ok := u.Elem().Underlying().(*types.Struct)
		if !ok {
			fx.specFail(env, "field of pointer to non-struct")
		}
		ft := sty.Field(i).Type()
		if _, nested := ft.Underlying().(*types.Struct); nested {
			// keep the address so that further selection reads the nested value
			return Val{T: types.NewPointer(ft), Loc: &Loc{Kind: LField, Ref: base.S, Owner: u.Elem(), OwnerS: sty, Field: i, T: ft}}
		}
		return fx.Load(st, &Loc{Kind: LField, Ref: base.S, Owner: u.Elem(), OwnerS: sty, Field: i, T: ft})
	case *types.Struct:
		return Val{T: u.Field(i).Type(), Sort: fx.em.SortOf(u.Field(i).Type()), S: fmt.Sprintf("(%s %s)", fx.em.fieldSel(base.Sort, u, i), base.S)}
	}
	fx.specFail(env, "field selection on %s", typeKey(base.T))
	return Val{}
}

func (fx *FuncExec) indexVal(env *SpecEnv, base, idx Val) Val {
	st := env.state()
	if base.Loc != nil {
		base = fx.Load(st, base.Loc)
	}
	switch {
	case base.Sort == SSlice:
		el := base.T.Underlying().(*types.Slice).Elem()
		es := fx.em.SortOf(el)
		h := fx.heapTerm(st, elemKey(el), arr2Sort(es), el)
		return Val{T: el, Sort: es, S: sel(sel(h, "(s.arr "+base.S+")"), add("(s.off "+base.S+")", idx.S))}
	case base.Sort == SStr:
		return Val{T: types.Typ[types.Byte], Sort: SInt, S: fmt.Sprintf("(gs.at %s %s)", base.S, idx.S)}
	case strings.HasPrefix(string(base.Sort), "(Array Int "):
		inner := strings.TrimSuffix(strings.TrimPrefix(string(base.Sort), "(Array Int "), ")")
		return Val{Sort: Sort(inner), S: sel(base.S, idx.S)}
	case base.T != nil:
		if m, ok := base.T.Underlying().(*types.Map); ok {
			// Go semantics: the zero value when the key is absent (or the map is nil)
			_, _, dh, vh := fx.mapHeaps(st, m)
			present := and(not(eq(base.S, "0")), sel(sel(dh, base.S), idx.S))
			return Val{T: m.Elem(), Sort: fx.em.SortOf(m.Elem()), S: ite(present, sel(sel(vh, base.S), idx.S), fx.em.Zero(m.Elem()))}
		}
	}
	fx.specFail(env, "cannot index sort %s", base.Sort)
	return Val{}
}

func (fx *FuncExec) evalLoc(env *SpecEnv, e ast.Expr) *Loc {
	switch x := e.(type) {
	case *ast.ParenExpr:
		return fx.evalLoc(env, x.X)
	case *ast.SelectorExpr:
		if id, ok := x.X.(*ast.Ident); ok {
			if _, bound := env.bind[id.Name]; !bound && fx.lookupLocal(env, id.Name) == nil && fx.paramVals[id.Name].S == "" {
				if pkg := fx.specPackage(env, id.Name); pkg != nil {
					sp := fx.V.prog.Package(pkg)
					if g, ok := sp.Members[x.Sel.Name].(*ssa.Global); ok {
						return &Loc{Kind: LGlobal, Global: g, T: g.Type().Underlying().(*types.Pointer).Elem()}
					}
				}
			}
		}
		var base Val
		if id, ok := x.X.(*ast.Ident); ok && !env.calleeMode {
			// a struct-typed local whose address escapes lives in the object heap: a location inside
			// it is a field of that object
			if _, bound := env.bind[id.Name]; !bound {
				if as := fx.lookupLocal(env, id.Name); len(as) == 1 {
					if v, ok := fx.vals[as[0]]; ok && v.S != "" && (v.Loc == nil || v.Loc.Kind != LCell) {
						if pt, ok := v.T.Underlying().(*types.Pointer); ok {
							if _, isS := pt.Elem().Underlying().(*types.Struct); isS {
								base = v
							}
						}
					}
				}
			}
		}
		if base.T == nil {
			base = fx.evalSpec(env, x.X)
		}
		name := x.Sel.Name
		if strings.HasPrefix(name, ghostPrefix) {
			g := strings.TrimPrefix(name, ghostPrefix)
			pt := base.T.Underlying().(*types.Pointer)
			tk := typeKey(pt.Elem())
			ts := fx.V.contracts.Types[tk]
			if ts == nil || ts.Ghost[g] == "" {
				fx.specFail(env, "type %s has no ghost field $%s", tk, g)
			}
			return &Loc{Kind: LGhost, Ref: base.S, Owner: pt.Elem(), GKey: "F:" + tk + ".$" + g, GSort: ghostElemSort(ts.Ghost[g])}
		}
		t := base.T
		if base.Loc != nil {
			t = types.NewPointer(base.Loc.T)
		}
		_, idx, _ := types.LookupFieldOrMethod(t, true, fx.homePkgFor(t, env), name)
		if len(idx) == 0 {
			fx.specFail(env, "no field %s", name)
		}
		var l *Loc
		cur := base
		for k, i := range idx {
			if cur.Loc != nil {
				sty := cur.Loc.T.Underlying().(*types.Struct)
				l = &Loc{Kind: LSub, Parent: cur.Loc, Field: i, T: sty.Field(i).Type()}
			} else {
				pt := cur.T.Underlying().(*types.Pointer)
				sty := pt.Elem().Underlying().(*types.Struct)
				l = &Loc{Kind: LField, Ref: cur.S, Owner: pt.Elem(), OwnerS: sty, Field: i, T: sty.Field(i).Type()}
			}
			if k < len(idx)-1 {
				if _, isPtr := l.T.Underlying().(*types.Pointer); isPtr {
					cur = fx.Load(env.state(), l)
				} else {
					cur = Val{T: types.NewPointer(l.T), Loc: l}
				}
			}
		}
		return l
	case *ast.StarExpr:
		p := fx.evalSpec(env, x.X)
		return fx.locOf(p)
	case *ast.IndexExpr:
		base := fx.evalSpec(env, x.X)
		idx := fx.evalSpec(env, x.Index)
		if base.Sort == SSlice {
			el := base.T.Underlying().(*types.Slice).Elem()
			return &Loc{Kind: LElem, Arr: "(s.arr " + base.S + ")", Idx: add("(s.off "+base.S+")", idx.S), T: el}
		}
	case *ast.Ident:
		if pkg := fx.homePkg(env); pkg != nil {
			if sp := fx.V.prog.Package(pkg); sp != nil {
				if g, ok := sp.Members[x.Name].(*ssa.Global); ok {
					return &Loc{Kind: LGlobal, Global: g, T: g.Type().Underlying().(*types.Pointer).Elem()}
				}
			}
		}
		as := fx.lookupLocal(env, x.Name)
		if len(as) == 1 {
			if v, ok := fx.vals[as[0]]; ok && v.Loc != nil {
				return v.Loc
			}
			// a scalar local whose address escapes lives in the pointer heap
			if v, ok := fx.vals[as[0]]; ok && v.S != "" {
				if pt, isPtr := v.T.Underlying().(*types.Pointer); isPtr {
					return &Loc{Kind: LPtr, Ref: v.S, T: pt.Elem(), PT: v.T}
				}
			}
		}
	}
	fx.specFail(env, "expression is not a location")
	return nil
}

func (fx *FuncExec) evalSpecCall(env *SpecEnv, x *ast.CallExpr) Val {
	bv := func(s string) Val { return Val{T: types.Typ[types.Bool], Sort: SBool, S: s} }
	id, isId := x.Fun.(*ast.Ident)
	if !isId {
		// conversion pkg.T(x) or method calls are not supported
		if sel, ok := x.Fun.(*ast.SelectorExpr); ok && len(x.Args) == 1 {
			if pid, ok := sel.X.(*ast.Ident); ok {
				if pkg := fx.specPackage(env, pid.Name); pkg != nil {
					if tn, ok := pkg.Scope().Lookup(sel.Sel.Name).(*types.TypeName); ok {
						v := fx.evalSpec(env, x.Args[0])
						ns := fx.em.SortOf(tn.Type())
						if ns != v.Sort {
							v = fx.convertSort(v, ns, tn.Type())
						}
						v.T = tn.Type()
						return v
					}
				}
			}
		}
		fx.specFail(env, "unsupported call form")
	}
	name := id.Name
	if strings.HasPrefix(name, ghostPrefix) {
		return fx.evalSpecFunc(env, strings.TrimPrefix(name, ghostPrefix), x.Args)
	}
	switch name {
	case "old":
		n := *env
		n.cur = env.old
		n.inOld = true
		return fx.evalSpec(&n, x.Args[0])
	case "oldAt":
		lbl, _ := strconv.Unquote(x.Args[0].(*ast.BasicLit).Value)
		st := env.cur.labels[lbl]
		if st == nil {
			fx.specFail(env, "no state labelled %q", lbl)
		}
		n := *env
		n.cur = st
		return fx.evalSpec(&n, x.Args[1])
	case "len":
		v := fx.evalSpec(env, x.Args[0])
		if v.Loc != nil {
			v = fx.Load(env.state(), v.Loc)
		}
		switch {
		case v.Sort == SSlice:
			return Val{T: types.Typ[types.Int], Sort: SInt, S: "(s.len " + v.S + ")"}
		case v.Sort == SStr:
			return Val{T: types.Typ[types.Int], Sort: SInt, S: "(gs.len " + v.S + ")"}
		case v.T != nil:
			if _, ok := v.T.Underlying().(*types.Map); ok {
				return Val{T: types.Typ[types.Int], Sort: SInt, S: fx.mapLen(env.state(), v)}
			}
		}
		fx.specFail(env, "len of sort %s", v.Sort)
	case "cap":
		v := fx.evalSpec(env, x.Args[0])
		return Val{T: types.Typ[types.Int], Sort: SInt, S: "(s.cap " + v.S + ")"}
	case "imp":
		return bv(imp(fx.evalSpec(env.flipped(-env.pol), x.Args[0]).S, fx.evalSpec(env, x.Args[1]).S))
	case "iff":
		return bv(eq(fx.evalSpec(env.flipped(0), x.Args[0]).S, fx.evalSpec(env.flipped(0), x.Args[1]).S))
	case "ite":
		c := fx.evalSpec(env.flipped(0), x.Args[0])
		a, b := fx.evalSpec(env, x.Args[1]), fx.evalSpec(env, x.Args[2])
		a, b = fx.coerceNil(a, b)
		return Val{T: a.T, Sort: a.Sort, S: ite(c.S, a.S, b.S)}
	case "forall", "exists":
		v := x.Args[0].(*ast.Ident).Name
		bn := fmt.Sprintf("%s!%d!", v, fx.em.n)
		fx.em.n++
		lo := fx.evalSpec(env.flipped(0), x.Args[1])
		hi := fx.evalSpec(env.flipped(0), x.Args[2])
		e2 := env.with(v, Val{T: types.Typ[types.Int], Sort: SInt, S: bn})
		wasIn := env.inQuant
		e2.inQuant = true
		body := fx.underBinder(e2, x.Args[3])
		rng := and(fmt.Sprintf("(<= %s %s)", lo.S, bn), fmt.Sprintf("(< %s %s)", bn, hi.S))
		if name == "forall" {
			text := fmt.Sprintf("(forall ((%s Int)) %s)", bn, imp(rng, body.S))
			if env.pol == 1 && env.rec != nil && !wasIn {
				*env.rec = append(*env.rec, quantRec{text: text, bound: bn, body: imp(rng, body.S)})
			}
			return bv(text)
		}
		etext := fmt.Sprintf("(exists ((%s Int)) %s)", bn, and(rng, body.S))
		if env.pol == 1 && env.rec != nil && !wasIn {
			*env.rec = append(*env.rec, quantRec{text: etext, bound: bn, body: and(rng, body.S), exists: true})
		}
		return bv(etext)
	case "seqput":
		// seqput(w, at, s): the sequence w with the elements of slice s written at positions at..at+len(s)
		w := fx.evalSpec(env, x.Args[0])
		at := fx.evalSpec(env, x.Args[1])
		s := fx.evalSpec(env, x.Args[2])
		if !strings.HasPrefix(string(w.Sort), "(Array Int ") || s.Sort != SSlice {
			fx.specFail(env, "seqput(seq, int, slice)")
		}
		nw := fx.em.FreshRaw("seqput", string(w.Sort))
		el := fx.indexVal(env, s, Val{Sort: SInt, S: "(- j " + at.S + ")"})
		fx.em.Assert(fmt.Sprintf("(forall ((j Int)) (! (= (select %s j) (ite (and (<= %s j) (< j (+ %s (s.len %s)))) %s (select %s j))) :pattern ((select %s j))))",
			nw, at.S, at.S, s.S, el.S, w.S, nw))
		return Val{Sort: w.Sort, S: nw}
	case "forallstr":
		// forallstr(k, P): P holds for every string k
		v := x.Args[0].(*ast.Ident).Name
		bn := fmt.Sprintf("%s!%d!", v, fx.em.n)
		fx.em.n++
		e2 := env.with(v, Val{T: types.Typ[types.String], Sort: SStr, S: bn})
		e2.inQuant = true
		wasIn := env.inQuant
		body := fx.underBinder(e2, x.Args[1])
		text := fmt.Sprintf("(forall ((%s Str)) %s)", bn, body.S)
		if env.pol == 1 && env.rec != nil && !wasIn {
			*env.rec = append(*env.rec, quantRec{text: text, bound: bn, body: body.S, sort: "Str"})
		}
		return bv(text)
	case "forallkey":
		// forallkey(k, m, P): P holds for every key k present in map m
		v := x.Args[0].(*ast.Ident).Name
		m := fx.evalSpec(env, x.Args[1])
		mt, ok := m.T.Underlying().(*types.Map)
		if !ok {
			fx.specFail(env, "forallkey over a non-map")
		}
		bn := fmt.Sprintf("%s!%d", v, fx.em.n)
		fx.em.n++
		ks := fx.em.SortOf(mt.Key())
		_, _, dh, _ := fx.mapHeaps(env.state(), mt)
		e2 := env.with(v, Val{T: mt.Key(), Sort: ks, S: bn})
		body := fx.underBinder(e2, x.Args[2])
		return bv(fmt.Sprintf("(forall ((%s %s)) %s)", bn, ks, imp(and(not(eq(m.S, "0")), sel(sel(dh, m.S), bn)), body.S)))
	case "held":
		l := fx.evalLoc(env, x.Args[0])
		key := fx.canonKey(fx.locString(l))
		if h, ok := env.state().locks[key]; ok {
			return bv(h)
		}
		return bv("false")
	case "seqeq":
		a := fx.evalSpec(env, x.Args[0])
		alo := fx.evalSpec(env, x.Args[1])
		b := fx.evalSpec(env, x.Args[2])
		blo := fx.evalSpec(env, x.Args[3])
		n := fx.evalSpec(env, x.Args[4])
		bn := fmt.Sprintf("k!%d", fx.em.n)
		fx.em.n++
		k := Val{T: types.Typ[types.Int], Sort: SInt, S: bn}
		ea := fx.indexVal(env, a, Val{Sort: SInt, S: add(alo.S, bn)})
		eb := fx.indexVal(env, b, Val{Sort: SInt, S: add(blo.S, bn)})
		_ = k
		return bv(fmt.Sprintf("(forall ((%s Int)) (=> (and (<= 0 %s) (< %s %s)) (= %s %s)))", bn, bn, bn, n.S, ea.S, eb.S))
	case "fresh":
		// fresh(x): allocated during this call (slices: their backing array; nil slices count as fresh)
		v := fx.evalSpec(env, x.Args[0])
		top0 := fx.entry.heaps[topKey]
		if env.calleeMode {
			top0 = env.old.heaps[topKey]
		}
		if v.Sort == SSlice {
			return bv(or(fmt.Sprintf("(> (s.arr %s) %s)", v.S, top0), eq("(s.arr "+v.S+")", "0")))
		}
		return bv(fmt.Sprintf("(> %s %s)", v.S, top0))
	case "has":
		// has(m, k): key present in map
		m := fx.evalSpec(env, x.Args[0])
		k := fx.evalSpec(env, x.Args[1])
		mt := m.T.Underlying().(*types.Map)
		_, _, dh, _ := fx.mapHeaps(env.state(), mt)
		return bv(and(not(eq(m.S, "0")), sel(sel(dh, m.S), k.S)))
	case "typeis":
		v := fx.evalSpec(env, x.Args[0])
		t := fx.specType(env, x.Args[1])
		return bv(eq("(i.tag "+v.S+")", fmt.Sprintf("%d", fx.em.Tag(t))))
	case "unbox":
		v := fx.evalSpec(env, x.Args[0])
		t := fx.specType(env, x.Args[1])
		if _, isI := t.Underlying().(*types.Interface); isI {
			return Val{T: t, Sort: SIface, S: v.S} // "unboxing" to an interface type keeps the interface value
		}
		s := fx.em.SortOf(t)
		return Val{T: t, Sort: s, S: fx.em.Unbox("(i.val "+v.S+")", s)}
	case "ret":
		// ret("callee#N") / ret("callee#N", i): what the N-th (source order) call of callee returned
		lit, ok := x.Args[0].(*ast.BasicLit)
		if !ok {
			fx.specFail(env, "ret(\"callee#N\"[, i])")
		}
		nm, _ := strconv.Unquote(lit.Value)
		v, ok := env.state().rets[nm]
		if !ok {
			var have []string
			for k := range env.state().rets {
				have = append(have, k)
			}
			sort.Strings(have)
			fx.specFail(env, "ret(%q): that call has not been made on every path to this point (known: %s)", nm, strings.Join(have, ", "))
		}
		if len(x.Args) > 1 {
			idx := fx.evalSpec(env, x.Args[1])
			i, err := strconv.Atoi(idx.S)
			if err != nil || i < 0 || i >= len(v.Tup) {
				fx.specFail(env, "ret(%q, i): bad result index", nm)
			}
			return v.Tup[i]
		}
		if len(v.Tup) > 0 {
			return v.Tup[0]
		}
		return v
	case "calledsince":
		// calledsince("callee"): called since the innermost loop head was last passed (in step clauses:
		// "during this iteration")
		lit, ok := x.Args[0].(*ast.BasicLit)
		if !ok {
			fx.specFail(env, "calledsince(\"callee name\")")
		}
		nm, _ := strconv.Unquote(lit.Value)
		if h, ok := env.state().calledIter[nm]; ok {
			return bv(h)
		}
		return bv("false")
	case "isfunc":
		// isfunc(v, "name"): the function value v is (statically) the named function or closure
		lit, ok := x.Args[1].(*ast.BasicLit)
		if !ok {
			fx.specFail(env, "isfunc(value, \"function name\")")
		}
		nm, _ := strconv.Unquote(lit.Value)
		v := fx.evalSpec(env, x.Args[0])
		if v.Fn != nil && shortName(fx.V.funcKey(v.Fn)) == nm {
			return bv("true")
		}
		return bv("false")
	case "calledbefore":
		// calledbefore("callee"), in an `at call` clause: the callee had been called before THIS call
		// (for the call's own callee: not counting the call the clause is attached to)
		lit, ok := x.Args[0].(*ast.BasicLit)
		if !ok {
			fx.specFail(env, "calledbefore(\"callee name\")")
		}
		nm, _ := strconv.Unquote(lit.Value)
		if nm == fx.curCallShort {
			return bv(fx.curCallPrev)
		}
		if h, ok := env.state().called[nm]; ok {
			return bv(h)
		}
		return bv("false")
	case "called":
		// called("callee"): a call to that callee (at-call naming) has been executed on this path
		lit, ok := x.Args[0].(*ast.BasicLit)
		if !ok {
			fx.specFail(env, "called(\"callee name\")")
		}
		nm, _ := strconv.Unquote(lit.Value)
		if h, ok := env.state().called[nm]; ok {
			return bv(h)
		}
		return bv("false")
	case "runecount":
		// runecount(s): len([]rune(s))
		a := fx.evalSpec(env, x.Args[0])
		fx.em.DeclareBase("gs.runecount", "(declare-fun gs.runecount (Str) Int)\n(declare-fun gs.runes (Str) (Array Int Int))")
		return Val{T: types.Typ[types.Int], Sort: SInt, S: "(gs.runecount " + a.S + ")"}
	case "runeat":
		// runeat(s, i): []rune(s)[i]
		a, i := fx.evalSpec(env, x.Args[0]), fx.evalSpec(env, x.Args[1])
		fx.em.DeclareBase("gs.runecount", "(declare-fun gs.runecount (Str) Int)\n(declare-fun gs.runes (Str) (Array Int Int))")
		return Val{T: types.Typ[types.Rune], Sort: SInt, S: fmt.Sprintf("(select (gs.runes %s) %s)", a.S, i.S)}
	case "disjoint":
		// disjoint(a, b): the two slices do not share a backing array (or one of them has none)
		a, b := fx.evalSpec(env, x.Args[0]), fx.evalSpec(env, x.Args[1])
		if a.Sort != SSlice || b.Sort != SSlice {
			fx.specFail(env, "disjoint(slice, slice)")
		}
		return bv(or(eq("(s.arr "+a.S+")", "0"), eq("(s.arr "+b.S+")", "0"), not(eq("(s.arr "+a.S+")", "(s.arr "+b.S+")"))))
	case "bytesof":
		// bytesof(s, x): the string s consists of exactly the bytes of the byte slice x
		a, b := fx.evalSpec(env, x.Args[0]), fx.evalSpec(env, x.Args[1])
		if a.Sort != SStr || b.Sort != SSlice {
			fx.specFail(env, "bytesof(string, []byte)")
		}
		el := fx.indexVal(env, b, Val{Sort: SInt, S: "i"})
		return bv(fmt.Sprintf("(and (= (gs.len %s) (s.len %s)) (forall ((i Int)) (=> (and (<= 0 i) (< i (gs.len %s))) (= (gs.at %s i) %s))))", a.S, b.S, a.S, a.S, el.S))
	case "streq":
		a, b := fx.evalSpec(env, x.Args[0]), fx.evalSpec(env, x.Args[1])
		return bv(fmt.Sprintf("(and (= (gs.len %s) (gs.len %s)) (forall ((i Int)) (=> (and (<= 0 i) (< i (gs.len %s))) (= (gs.at %s i) (gs.at %s i)))))", a.S, b.S, a.S, a.S, b.S))
	case "int", "byte", "rune", "int64", "uint32", "uint64", "uint":
		v := fx.evalSpec(env, x.Args[0])
		if v.Sort == SF64 {
			fx.declareToInt()
			return Val{T: types.Typ[types.Int], Sort: SInt, S: "(f64.toint " + v.S + ")"}
		}
		return v
	case "float64":
		v := fx.evalSpec(env, x.Args[0])
		if v.Sort == SInt {
			return Val{T: types.Typ[types.Float64], Sort: SF64, S: fmt.Sprintf("((_ to_fp 11 53) RNE (to_real %s))", v.S)}
		}
		return v
	case "same":
		// same(a, b): identical values (for floats: the same bit pattern, unlike Go's ==)
		a, b := fx.evalSpec(env, x.Args[0]), fx.evalSpec(env, x.Args[1])
		a, b = fx.coerceNil(a, b)
		return bv(eq(a.S, b.S))
	case "finite":
		v := fx.evalSpec(env, x.Args[0])
		return bv(fmt.Sprintf("(not (or (fp.isNaN %s) (fp.isInfinite %s)))", v.S, v.S))
	case "any":
		// any(x): x boxed into an interface value with its static type
		v := fx.evalSpec(env, x.Args[0])
		if v.Sort == SIface {
			return v
		}
		if v.T == nil {
			fx.specFail(env, "any() of untyped value")
		}
		return Val{T: types.NewInterfaceType(nil, nil), Sort: SIface, S: fmt.Sprintf("(mkIface %d %s)", fx.em.Tag(v.T), fx.em.Box(v))}
	case "bit":
		// bit(x, MASK): (x & MASK) != 0 for bitvector-encoded flags
		a, m := fx.evalSpec(env, x.Args[0]), fx.evalSpec(env, x.Args[1])
		a, m = fx.coerceNil(a, m)
		if a.Sort == SBV {
			return bv(not(eq(fmt.Sprintf("(bvand %s %s)", a.S, m.S), "(_ bv0 64)")))
		}
		if x, e1 := strconv.ParseInt(a.S, 10, 64); e1 == nil && x >= 0 {
			if y, e2 := strconv.ParseInt(m.S, 10, 64); e2 == nil && y >= 0 {
				if x&y != 0 {
					return bv("true")
				}
				return bv("false")
			}
		}
		fx.em.DeclareBase("int.and", "(declare-fun int.and (Int Int) Int)")
		return bv(not(eq(fmt.Sprintf("(int.and %s %s)", a.S, m.S), "0")))
	}
	fx.specFail(env, "unknown spec function %s", name)
	return Val{}
}

func (fx *FuncExec) evalSpecFunc(env *SpecEnv, name string, args []ast.Expr) Val {
	sf := fx.V.contracts.Specs[name]
	if sf == nil {
		fx.specFail(env, "undeclared spec function $%s", name)
	}
	if len(args) != len(sf.Params) {
		fx.specFail(env, "$%s expects %d arguments", name, len(sf.Params))
	}
	var vs []Val
	for i, a := range args {
		v := fx.evalSpec(env, a)
		if v.Sort == "Nil" {
			v, _ = fx.coerceNil(v, Val{Sort: sf.PSorts[i]})
		}
		if v.Loc != nil {
			v = fx.Load(env.state(), v.Loc)
		}
		if v.Sort != sf.PSorts[i] {
			fx.specFail(env, "$%s argument %d has sort %s, want %s", name, i, v.Sort, sf.PSorts[i])
		}
		vs = append(vs, v)
	}
	if sf.Body != nil {
		e2 := &SpecEnv{fx: fx, cur: env.cur, old: env.old, bind: map[string]Val{}, calleeMode: true, calleeFn: fx.fn, clauseSrc: sf.Body.Src}
		for i, p := range sf.Params {
			e2.bind[p] = vs[i]
		}
		return fx.evalSpec(e2, sf.Body.Expr)
	}
	f := fx.em.UFun("$"+name, sf.PSorts, sf.Res)
	var as []string
	for _, v := range vs {
		as = append(as, v.S)
	}
	if len(as) == 0 {
		return Val{Sort: sf.Res, S: f}
	}
	term := fmt.Sprintf("(%s %s)", f, strings.Join(as, " "))
	if fx.discard == 0 && !strings.Contains(term, "!") && len(fx.modelTerms) < 60 {
		fx.modelTerms["$"+name+"("+strings.Join(as, ",")+")"] = term
	}
	return Val{Sort: sf.Res, S: term}
}
