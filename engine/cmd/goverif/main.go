package main

import (
	"os"
	"fmt"
	"golang.org/x/tools/go/packages"
	"golang.org/x/tools/go/ssa"
	"golang.org/x/tools/go/ssa/ssautil"
)

func main() {
	cfg := &packages.Config{Mode: packages.LoadAllSyntax, Dir: "/repo", BuildFlags: []string{"-tags=verif"}}
	pkgs, err := packages.Load(cfg, "github.com/lmorg/murex/lang")
	if err != nil {
		panic(err)
	}
	prog, spkgs := ssautil.AllPackages(pkgs, ssa.NaiveForm|ssa.InstantiateGenerics)
	prog.Build()
	fmt.Println(len(spkgs), spkgs[0].Func("isValidElementIndex"))
	spkgs[0].Func("isValidElementIndex").WriteTo(os.Stdout)
}
