package main

// goverif: contract-based verification-condition generator for Go (go/ssa, NaiveForm).
//
//   goverif gen -prop C16 -pkgs lang,lang/types -out DIR [-sweep pkg,...]
//
// loads the packages from /repo's working tree (build tag verif), reads //@ contracts from
// <pkg>/zz_verif_contracts.go and /verif/specs/*.spec, and writes one SMT-LIB2 query per obligation
// plus DIR/obligations.json.

import (
	"encoding/json"
	"flag"
	"fmt"
	"go/types"
	"os"
	"path/filepath"
	"sort"
	"strings"
	"time"

	"golang.org/x/tools/go/packages"
	"golang.org/x/tools/go/ssa"
	"golang.org/x/tools/go/ssa/ssautil"
)

const murexRoot = "github.com/lmorg/murex/"

type Verifier struct {
	prog      *ssa.Program
	pkgs      []*packages.Package
	allPkgs   map[string]*packages.Package
	contracts *Contracts
	pkgByName map[string]*types.Package
	closures  map[string]map[string]bool
	pureMemo  map[*ssa.Function]int
	srcCache  map[string][]string
	allFuncs  map[*ssa.Function]bool
	repo      string
	covers    bool
}

type FuncReport struct {
	Func        string         `json:"func"`
	Package     string         `json:"package"`
	Scope       string         `json:"scope"`
	Tags        []string       `json:"tags"`
	Trusted     bool           `json:"trusted"`
	Obligations int            `json:"obligations"`
	ByKind      map[string]int `json:"by_kind"`
	CallRules   map[string]int `json:"call_rules"`
	Abstracted  []string       `json:"abstracted_callees,omitempty"` // contract-less callees abstracted by the import-closure frame rule
	Relied      []string       `json:"relied_on_contracts"`
	Assumptions []string       `json:"assumptions"`
	Error       string         `json:"error,omitempty"`
	Loops       int            `json:"loops"`
	Blocks      int            `json:"blocks"`
	Instrs      int            `json:"instrs"`
	Source      string         `json:"source"`
}

type Output struct {
	Property    string        `json:"property"`
	Functions   []FuncReport  `json:"functions"`
	Obligations []*Obligation `json:"obligations"`
	Externs     []string      `json:"externs_used"`
	TrustedFns  []string      `json:"trusted"`
	Faults      []string      `json:"faults"`
	Files       []string      `json:"contract_files"`
	InferredPure []string     `json:"inferred_pure"`
	Swept       int           `json:"swept_functions"`
	SweepErrors []string      `json:"sweep_errors"`
}

func main() {
	if len(os.Args) < 2 {
		fmt.Fprintln(os.Stderr, "usage: goverif gen|dump ...")
		os.Exit(2)
	}
	switch os.Args[1] {
	case "gen":
		gen(os.Args[2:])
	case "dump":
		dump(os.Args[2:])
	default:
		fmt.Fprintln(os.Stderr, "unknown command")
		os.Exit(2)
	}
}

func load(repo string, pkgPaths []string) *Verifier {
	mode := packages.LoadAllSyntax
	if os.Getenv("GOVERIF_FULLLOAD") == "" {
		mode = packages.LoadSyntax
	}
	cfg := &packages.Config{Mode: mode, Dir: repo, BuildFlags: []string{"-tags=verif"}}
	var pats []string
	for _, p := range pkgPaths {
		if p == "." || p == "" {
			pats = append(pats, strings.TrimSuffix(murexRoot, "/"))
		} else {
			pats = append(pats, murexRoot+p)
		}
	}
	tl := time.Now()
	pkgs, err := packages.Load(cfg, pats...)
	if os.Getenv("GOVERIF_TIMING") != "" {
		fmt.Fprintln(os.Stderr, "packages.Load", time.Since(tl))
	}
	if err != nil {
		fmt.Fprintln(os.Stderr, "load:", err)
		os.Exit(2)
	}
	bad := false
	packages.Visit(pkgs, nil, func(p *packages.Package) {
		for _, e := range p.Errors {
			fmt.Fprintln(os.Stderr, "load error:", e)
			bad = true
		}
	})
	if bad {
		os.Exit(2)
	}
	t0 := time.Now()
	if mode != packages.LoadAllSyntax {
		// dependencies that go/packages had to type-check from source (no export data) come with
		// syntax but without full type information: treat them like export-data packages
		roots := map[*packages.Package]bool{}
		for _, p := range pkgs {
			roots[p] = true
		}
		packages.Visit(pkgs, nil, func(p *packages.Package) {
			if !roots[p] {
				p.Syntax = nil
				p.TypesInfo = nil
			}
		})
	}
	prog, _ := ssautil.AllPackages(pkgs, ssa.NaiveForm|ssa.InstantiateGenerics)
	// build function bodies only for murex packages: callees elsewhere are used through contracts
	for _, p := range prog.AllPackages() {
		if strings.HasPrefix(p.Pkg.Path(), strings.TrimSuffix(murexRoot, "/")) {
			p.Build()
		}
	}
	if os.Getenv("GOVERIF_TIMING") != "" {
		fmt.Fprintln(os.Stderr, "ssa build", time.Since(t0))
	}
	v := &Verifier{prog: prog, pkgs: pkgs, contracts: NewContracts(), pkgByName: map[string]*types.Package{},
		closures: map[string]map[string]bool{}, pureMemo: map[*ssa.Function]int{}, srcCache: map[string][]string{},
		allPkgs: map[string]*packages.Package{}, repo: repo}
	packages.Visit(pkgs, nil, func(p *packages.Package) {
		v.allPkgs[p.PkgPath] = p
		if p.Types == nil {
			return
		}
		if _, dup := v.pkgByName[p.Name]; !dup || strings.HasPrefix(p.PkgPath, murexRoot) {
			v.pkgByName[p.Name] = p.Types
		}
	})
	if mode != packages.LoadAllSyntax {
		// the import graph of all dependencies (cheap: go list only) for the import-closure frame rule
		gcfg := &packages.Config{Mode: packages.NeedName | packages.NeedImports | packages.NeedDeps, Dir: repo, BuildFlags: []string{"-tags=verif"}}
		gp, err := packages.Load(gcfg, pats...)
		if err != nil {
			fmt.Fprintln(os.Stderr, "load (import graph):", err)
			os.Exit(2)
		}
		packages.Visit(gp, nil, func(p *packages.Package) {
			if old, ok := v.allPkgs[p.PkgPath]; !ok || len(old.Imports) == 0 {
				v.allPkgs[p.PkgPath] = p
			}
		})
		// types of imported packages by name, for package-qualified identifiers in contracts
		for _, sp := range prog.AllPackages() {
			if _, dup := v.pkgByName[sp.Pkg.Name()]; !dup {
				v.pkgByName[sp.Pkg.Name()] = sp.Pkg
			}
		}
	}
	ta := time.Now()
	v.allFuncs = ssautil.AllFunctions(prog)
	// AllFunctions only reaches methods that are called or exported through interfaces: add every
	// declared function and method (and their closures) of the murex packages explicitly
	var addFn func(f *ssa.Function)
	addFn = func(f *ssa.Function) {
		if f == nil || v.allFuncs[f] {
			return
		}
		v.allFuncs[f] = true
		for _, a := range f.AnonFuncs {
			addFn(a)
		}
	}
	for _, sp := range prog.AllPackages() {
		if !strings.HasPrefix(sp.Pkg.Path(), strings.TrimSuffix(murexRoot, "/")) {
			continue
		}
		for _, m := range sp.Members {
			switch x := m.(type) {
			case *ssa.Function:
				addFn(x)
			case *ssa.Type:
				for _, t := range []types.Type{x.Type(), types.NewPointer(x.Type())} {
					ms := prog.MethodSets.MethodSet(t)
					for i := 0; i < ms.Len(); i++ {
						if fn := prog.MethodValue(ms.At(i)); fn != nil && fn.Synthetic == "" {
							addFn(fn)
						}
					}
				}
			}
		}
	}
	for f := range v.allFuncs {
		for _, a := range f.AnonFuncs {
			addFn(a)
		}
	}
	if os.Getenv("GOVERIF_TIMING") != "" {
		fmt.Fprintln(os.Stderr, "AllFunctions", time.Since(ta), len(v.allFuncs))
	}
	return v
}

func (v *Verifier) loadContracts(specDir string) error {
	// spec files first (externs, spec functions)
	files, _ := filepath.Glob(filepath.Join(specDir, "*.spec"))
	sort.Strings(files)
	for _, f := range files {
		if err := v.contracts.LoadFile(f, ""); err != nil {
			return err
		}
	}
	var paths []string
	for p := range v.allPkgs {
		if strings.HasPrefix(p, murexRoot) || p+"/" == murexRoot {
			paths = append(paths, p)
		}
	}
	sort.Strings(paths)
	for _, p := range paths {
		rel := strings.TrimPrefix(p, murexRoot)
		if p+"/" == murexRoot {
			rel = ""
		}
		f := filepath.Join(v.repo, rel, "zz_verif_contracts.go")
		if _, err := os.Stat(f); err == nil {
			key := rel
			if err := v.contracts.LoadFile(f, key); err != nil {
				return err
			}
		}
	}
	return nil
}

func (v *Verifier) relPkg(p *types.Package) string {
	if p == nil {
		return ""
	}
	return strings.TrimPrefix(p.Path(), murexRoot)
}

func (v *Verifier) fnPkg(fn *ssa.Function) *types.Package {
	for f := fn; f != nil; f = f.Parent() {
		if f.Pkg != nil {
			return f.Pkg.Pkg
		}
		if o := f.Origin(); o != nil && o.Pkg != nil {
			return o.Pkg.Pkg
		}
	}
	if fn.Object() != nil {
		return fn.Object().Pkg()
	}
	return nil
}

// funcRel is the contract key of a function inside its package: "isValidElementIndex",
// "(*jobs).GarbageCollect", "readArray$2"; generic instances use the origin's name.
func (v *Verifier) funcRel(fn *ssa.Function) string {
	f := fn
	if o := fn.Origin(); o != nil {
		f = o
	}
	pkg := v.fnPkg(f)
	s := f.RelString(pkg)
	return s
}

func (v *Verifier) funcKey(fn *ssa.Function) string {
	pkg := v.fnPkg(fn)
	if pkg == nil {
		return fn.String()
	}
	if strings.HasPrefix(pkg.Path(), murexRoot) || pkg.Path()+"/" == murexRoot {
		return v.relPkg(pkg) + ":" + v.funcRel(fn)
	}
	f := fn
	if o := fn.Origin(); o != nil {
		f = o
	}
	return f.String()
}

func (v *Verifier) funcDisplay(fn *ssa.Function) string {
	pkg := v.fnPkg(fn)
	if pkg == nil {
		return fn.String()
	}
	return v.relPkg(pkg) + "." + v.funcRel(fn)
}

func (v *Verifier) contractFor(fn *ssa.Function) *FuncContract {
	return v.contracts.Funcs[v.funcKey(fn)]
}

func (v *Verifier) importClosure(path string) map[string]bool {
	if c, ok := v.closures[path]; ok {
		return c
	}
	c := map[string]bool{}
	var walk func(p string)
	walk = func(p string) {
		if c[p] {
			return
		}
		c[p] = true
		if pk := v.allPkgs[p]; pk != nil {
			for ip := range pk.Imports {
				walk(ip)
			}
		}
	}
	walk(path)
	v.closures[path] = c
	return c
}

// inferPure: leaf functions with no store to non-local memory, no map update, no channel operation
// and only calls to functions already so classified (mutex operations exempt).
func (v *Verifier) inferPure(fn *ssa.Function) bool {
	switch v.pureMemo[fn] {
	case 1:
		return true
	case 2:
		return false
	case 3:
		return false // recursion: not pure
	}
	v.pureMemo[fn] = 3
	ok := v.inferPure1(fn)
	if ok {
		v.pureMemo[fn] = 1
	} else {
		v.pureMemo[fn] = 2
	}
	return ok
}

func (v *Verifier) inferPure1(fn *ssa.Function) bool {
	if len(fn.Blocks) == 0 {
		return false
	}
	pkg := v.fnPkg(fn)
	if pkg == nil || !(strings.HasPrefix(pkg.Path(), murexRoot)) {
		return false
	}
	for _, b := range fn.Blocks {
		for _, in := range b.Instrs {
			switch x := in.(type) {
			case *ssa.Store:
				if !localAddr(x.Addr) {
					return false
				}
			case *ssa.MapUpdate, *ssa.Send, *ssa.Go, *ssa.Select, *ssa.Panic:
				return false
			case *ssa.Defer:
				if !v.pureCall(x.Common()) {
					return false
				}
			case *ssa.Call:
				if !v.pureCall(x.Common()) {
					return false
				}
			case *ssa.UnOp:
				if x.Op.String() == "<-" {
					return false
				}
			}
		}
	}
	return true
}

func localAddr(a ssa.Value) bool {
	switch x := a.(type) {
	case *ssa.Alloc:
		return true
	case *ssa.FieldAddr:
		return localAddr(x.X)
	case *ssa.IndexAddr:
		if al, ok := x.X.(*ssa.Alloc); ok {
			_ = al
			return true
		}
	}
	return false
}

func (v *Verifier) pureCall(c *ssa.CallCommon) bool {
	if c.IsInvoke() {
		return false
	}
	switch f := c.Value.(type) {
	case *ssa.Builtin:
		switch f.Name() {
		case "len", "cap", "min", "max", "ssa:wrapnilchk", "ssa:deferstack":
			return true
		}
		return false
	case *ssa.Function:
		switch f.String() {
		case "(*sync.Mutex).Lock", "(*sync.Mutex).Unlock", "(*sync.RWMutex).Lock", "(*sync.RWMutex).Unlock",
			"(*sync.RWMutex).RLock", "(*sync.RWMutex).RUnlock", "sync/atomic.LoadInt32", "sync/atomic.LoadInt64",
			"sync/atomic.LoadUint32", "(*sync/atomic.Bool).Load", "(*sync/atomic.Int32).Load", "(*sync/atomic.Int64).Load",
			"strings.Contains", "strings.HasPrefix", "strings.HasSuffix", "strings.ToLower", "strings.TrimSpace",
			"(*context.cancelCtx).Done", "(*context.cancelCtx).Err":
			return true
		}
		if fc := v.contractFor(f); fc != nil && (fc.Pure || fc.ModNothing) {
			return true
		}
		return v.inferPure(f)
	}
	return false
}

func (v *Verifier) sourceLine(file string, line int) string {
	ls, ok := v.srcCache[file]
	if !ok {
		b, err := os.ReadFile(file)
		if err == nil {
			ls = strings.Split(string(b), "\n")
		}
		v.srcCache[file] = ls
	}
	if line-1 < len(ls) && line > 0 {
		return strings.TrimSpace(ls[line-1])
	}
	return ""
}

func (v *Verifier) findFunc(pkgRel, key string) []*ssa.Function {
	var out []*ssa.Function
	for fn := range v.allFuncs {
		pkg := v.fnPkg(fn)
		if pkg == nil || v.relPkg(pkg) != pkgRel {
			continue
		}
		if fn.Synthetic != "" && fn.Origin() == nil && !(key == "init" && fn.Name() == "init") {
			continue // (the package initializer `init` is the one synthetic function that can be under contract)
		}
		if v.funcRel(fn) == key {
			// generic origin bodies are verified through their instances
			if fn.TypeParams().Len() > 0 && len(fn.TypeArgs()) == 0 {
				continue
			}
			out = append(out, fn)
		}
	}
	sort.Slice(out, func(i, j int) bool { return out[i].String() < out[j].String() })
	return out
}

func (v *Verifier) verifyFunc(fn *ssa.Function, fc *FuncContract, em *Emitter, guardOnly bool) (fx *FuncExec, err error) {
	fx = &FuncExec{V: v, fn: fn, fc: fc, em: em, vals: map[ssa.Value]Val{}, counts: map[string]int{},
		heapInfos: map[string]*heapInfo{}, freshRefs: map[string]bool{}, callStats: map[string]int{},
		usedContracts: map[string]bool{}, assumptions: map[string]bool{}, usedCallSites: map[*CallSiteSpec]bool{}, guardOnly: guardOnly, heldOnEntry: map[string]bool{}, quantsOf: map[string][]quantRec{}}
	if fc != nil && fc.Scope == "functional" {
		fx.functional = true
	}
	defer func() {
		if r := recover(); r != nil {
			if tl, ok := r.(toolLimitErr); ok {
				err = tl
				return
			}
			panic(r)
		}
	}()
	fx.Run()
	if fc != nil {
		for _, cs := range fc.Calls {
			if !fx.usedCallSites[cs] && cs.Ordinal != -1 {
				fx.clauseFaults = append(fx.clauseFaults, fmt.Sprintf("contract of %s: call site %s#%d %s not found", fx.relName(), cs.Callee, cs.Ordinal, cs.LineHas))
			}
		}
		for _, rs := range fc.Returns {
			if !fx.usedCallSites[rs] {
				fx.clauseFaults = append(fx.clauseFaults, fmt.Sprintf("contract of %s: return #%d not found", fx.relName(), rs.Ordinal))
			}
		}
		for _, ss := range fc.Stores {
			if !fx.usedCallSites[ss] && ss.Ordinal != -1 {
				fx.clauseFaults = append(fx.clauseFaults, fmt.Sprintf("contract of %s: store site %s#%d not found", fx.relName(), ss.Callee, ss.Ordinal))
			}
		}
	}
	return fx, nil
}

func gen(args []string) {
	fs := flag.NewFlagSet("gen", flag.ExitOnError)
	prop := fs.String("prop", "", "property id (selects contracts tagged with it)")
	pkgsF := fs.String("pkgs", "", "comma separated package paths relative to the murex root")
	out := fs.String("out", "", "output directory")
	repo := fs.String("repo", "/repo", "repository root")
	specs := fs.String("specs", "/verif/specs", "directory with *.spec files")
	sweep := fs.String("sweep", "", "packages whose every function is checked for guard obligations")
	only := fs.String("only", "", "verify only this function key (debug)")
	covers := fs.Bool("covers", false, "also generate cover (reachability) queries for preconditions and loop invariants")
	fs.Parse(args)
	os.MkdirAll(*out, 0o755)
	pkgList := strings.Split(*pkgsF, ",")
	v := load(*repo, pkgList)
	v.covers = *covers
	res := &Output{Property: *prop}
	if err := v.loadContracts(*specs); err != nil {
		res.Faults = append(res.Faults, err.Error())
		writeOutput(*out, res)
		return
	}
	res.Files = v.contracts.Files
	var keys []string
	for k, fc := range v.contracts.Funcs {
		if fc.Extern {
			continue
		}
		if fc.HasTag(*prop) {
			keys = append(keys, k)
		}
	}
	sort.Strings(keys)
	seq := 0
	for _, k := range keys {
		fc := v.contracts.Funcs[k]
		if *only != "" && fc.Key != *only {
			continue
		}
		fns := v.findFunc(fc.Pkg, fc.Key)
		if len(fns) == 0 && fc.Trusted {
			// a trusted contract of a package that is not loaded with bodies: nothing to verify here
			res.TrustedFns = append(res.TrustedFns, k)
			continue
		}
		if len(fns) == 0 {
			res.Faults = append(res.Faults, fmt.Sprintf("function under contract not found: %s (%s)", k, fc.Src))
			continue
		}
		if fc.Trusted {
			res.TrustedFns = append(res.TrustedFns, k)
			res.Functions = append(res.Functions, FuncReport{Func: fc.Pkg + "." + fc.Key, Package: fc.Pkg, Scope: "trusted", Tags: fc.Tags, Trusted: true})
			continue
		}
		for _, fn := range fns {
			em := NewEmitter()
			fx, err := v.verifyFunc(fn, fc, em, false)
			rep := FuncReport{Func: v.funcDisplay(fn), Package: fc.Pkg, Scope: fc.Scope, Tags: fc.Tags, ByKind: map[string]int{}, Source: fc.Src,
				Blocks: len(fn.Blocks)}
			if fn.String() != "" && len(fn.TypeArgs()) > 0 {
				rep.Func = v.relPkg(v.fnPkg(fn)) + "." + fn.RelString(v.fnPkg(fn))
			}
			for _, b := range fn.Blocks {
				rep.Instrs += len(b.Instrs)
			}
			if err != nil {
				rep.Error = err.Error()
				res.Faults = append(res.Faults, fmt.Sprintf("%s: %v", rep.Func, err))
				res.Functions = append(res.Functions, rep)
				continue
			}
			rep.Loops = len(fx.loops)
			for _, cf := range fx.clauseFaults {
				res.Faults = append(res.Faults, fmt.Sprintf("%s: %s", rep.Func, cf))
			}
			rep.CallRules = fx.callStats
			for n := range fx.havocNames {
				rep.Abstracted = append(rep.Abstracted, n)
			}
			sort.Strings(rep.Abstracted)
			for c := range fx.usedContracts {
				rep.Relied = append(rep.Relied, c)
			}
			sort.Strings(rep.Relied)
			for a := range fx.assumptions {
				rep.Assumptions = append(rep.Assumptions, a)
			}
			sort.Strings(rep.Assumptions)
			prelude := em.Prelude()
			for _, ob := range fx.obls {
				seq++
				if len(fn.TypeArgs()) > 0 {
					ob.Name = strings.Replace(ob.Name, fx.relName(), rep.Func, 1)
					ob.Func = rep.Func
				}
				ob.Props = fc.Tags
				rep.ByKind[ob.Kind]++
				rep.Obligations++
				ob.File = fmt.Sprintf("o%04d.smt2", seq)
				writeQuery(filepath.Join(*out, ob.File), prelude, em, ob)
				res.Obligations = append(res.Obligations, ob)
			}
			res.Functions = append(res.Functions, rep)
		}
	}
	// guard sweep
	if *sweep != "" {
		for _, sp := range strings.Split(*sweep, ",") {
			var fns []*ssa.Function
			for fn := range v.allFuncs {
				pkg := v.fnPkg(fn)
				if pkg == nil || v.relPkg(pkg) != sp || len(fn.Blocks) == 0 {
					continue
				}
				if fn.Synthetic != "" {
					continue
				}
				if fc := v.contractFor(fn); fc != nil && fc.HasTag(*prop) && !fc.Trusted {
					continue // already verified in full above
				}
				if strings.HasPrefix(fn.Name(), "verifLemma") || strings.HasPrefix(fn.Name(), "init") {
					continue
				}
				fns = append(fns, fn)
			}
			sort.Slice(fns, func(i, j int) bool { return fns[i].String() < fns[j].String() })
			for _, fn := range fns {
				if !v.touchesGuarded(fn) {
					continue // no instruction of this function addresses a guarded field
				}
				res.Swept++
				em := NewEmitter()
				fc := v.contractFor(fn)
				fx, err := v.verifyFunc(fn, sweepContract(fc), em, true)
				rep := FuncReport{Func: v.funcDisplay(fn), Package: sp, Scope: "guard-sweep", ByKind: map[string]int{}, Blocks: len(fn.Blocks)}
				if err != nil {
					rep.Error = err.Error()
					res.Functions = append(res.Functions, rep)
					res.SweepErrors = append(res.SweepErrors, rep.Func+": "+rep.Error)
					continue
				}
				prelude := em.Prelude()
				for _, ob := range fx.obls {
					if ob.Kind != "guard" && ob.Kind != "unlock" && ob.Kind != "relock" && !(ob.Kind == "pre@call" && strings.Contains(ob.Desc, "held(")) {
						continue
					}
					seq++
					ob.Props = []string{*prop}
					rep.ByKind[ob.Kind]++
					rep.Obligations++
					ob.File = fmt.Sprintf("o%04d.smt2", seq)
					writeQuery(filepath.Join(*out, ob.File), prelude, em, ob)
					res.Obligations = append(res.Obligations, ob)
				}
				if rep.Obligations > 0 {
					res.Functions = append(res.Functions, rep)
				}
			}
		}
	}
	ext := map[string]bool{}
	for k, fc := range v.contracts.Funcs {
		if fc.Extern {
			ext[k] = true
		}
	}
	used := map[string]bool{}
	for _, fr := range res.Functions {
		for _, r := range fr.Relied {
			if ext[r] {
				used[r] = true
			}
		}
	}
	for k := range used {
		res.Externs = append(res.Externs, k)
	}
	sort.Strings(res.Externs)
	for fn, st := range v.pureMemo {
		if st == 1 {
			res.InferredPure = append(res.InferredPure, v.funcDisplay(fn))
		}
	}
	sort.Strings(res.InferredPure)
	writeOutput(*out, res)
}

// sweepContract keeps only the precondition (held locks) of a contract for the guard sweep.
func sweepContract(fc *FuncContract) *FuncContract {
	if fc == nil {
		return nil
	}
	return &FuncContract{Key: fc.Key, Pkg: fc.Pkg, Requires: fc.Requires, Loops: map[string]*LoopSpec{}, Scope: "functional", Src: fc.Src}
}

func writeQuery(path, prelude string, em *Emitter, ob *Obligation) {
	var b strings.Builder
	b.WriteString("; obligation " + ob.Name + "\n; " + ob.Desc + "\n; " + ob.Pos + "  " + ob.Code + "\n")
	b.WriteString(prelude)
	for _, l := range em.lines[:ob.prefix] {
		b.WriteString(l)
		b.WriteByte('\n')
	}
	for _, l := range ob.extra {
		b.WriteString(l)
		b.WriteByte('\n')
	}
	b.WriteString("(assert " + ob.pc + ")\n")
	b.WriteString("(assert (not " + ob.goal + "))\n")
	b.WriteString("(check-sat)\n")
	if len(ob.Model) > 0 {
		var ks []string
		for k := range ob.Model {
			ks = append(ks, k)
		}
		sort.Strings(ks)
		var ts []string
		for _, k := range ks {
			ts = append(ts, ob.Model[k])
		}
		b.WriteString("(get-value (" + strings.Join(ts, " ") + "))\n")
	}
	os.WriteFile(path, []byte(b.String()), 0o644)
}

func writeOutput(dir string, res *Output) {
	b, _ := json.MarshalIndent(res, "", " ")
	os.WriteFile(filepath.Join(dir, "obligations.json"), b, 0o644)
	fmt.Printf("functions=%d obligations=%d faults=%d\n", len(res.Functions), len(res.Obligations), len(res.Faults))
	for _, f := range res.Faults {
		fmt.Println("FAULT:", f)
	}
}

func dump(args []string) {
	v := load("/repo", []string{args[0]})
	for fn := range v.allFuncs {
		for _, n := range args[1:] {
			if v.funcDisplay(fn) == n || fn.Name() == n {
				fmt.Println("==", fn.String(), "key:", v.funcKey(fn))
				fn.WriteTo(os.Stdout)
			}
		}
	}
}

// touchesGuarded: does the function contain a FieldAddr/Field of a field declared guarded_by?
func (v *Verifier) touchesGuarded(fn *ssa.Function) bool {
	for _, b := range fn.Blocks {
		for _, in := range b.Instrs {
			fa, ok := in.(*ssa.FieldAddr)
			if !ok {
				continue
			}
			pt, ok := fa.X.Type().Underlying().(*types.Pointer)
			if !ok {
				continue
			}
			ts := v.contracts.Types[typeKey(pt.Elem())]
			if ts == nil || (ts.GuardedBy == "" && len(ts.Atomic) == 0) {
				continue
			}
			st, ok := pt.Elem().Underlying().(*types.Struct)
			if !ok {
				continue
			}
			name := st.Field(fa.Field).Name()
			for _, g := range ts.Guarded {
				if g == name {
					return true
				}
			}
			for _, g := range ts.Atomic {
				if g == name {
					return true
				}
			}
		}
	}
	return false
}
