package main

// SMT layer: sorts, values, the definition emitter, literals, lazily generated datatypes.

import (
	"fmt"
	"go/constant"
	"go/types"
	"math"
	"math/big"
	"sort"
	"strings"

	"golang.org/x/tools/go/ssa"
)

type Sort string

const (
	SInt   Sort = "Int"
	SBool  Sort = "Bool"
	SStr   Sort = "Str"
	SSlice Sort = "Slice"
	SIface Sort = "Iface"
	SF64   Sort = "F64"
	SBV    Sort = "BV64"
)

// Val is a symbolic value: an SMT term with its Go type, or a location (address), or a tuple,
// or a statically known function/closure.
type Val struct {
	T    types.Type
	S    string
	Sort Sort
	Loc  *Loc
	Tup  []Val
	Fn   *ssa.Function
	Bind []Val
	Bi   *ssa.Builtin
	Known int // known length + 1 for slices of fixed arrays (0 = unknown)
}

func (v Val) IsTerm() bool { return v.S != "" }

type LocKind int

const (
	LCell LocKind = iota
	LField
	LElem
	LSub
	LGlobal
	LPtr
	LGhost
)

// Loc is a syntactically resolved address.
type Loc struct {
	Kind   LocKind
	Cell   ssa.Value // LCell: *ssa.Alloc, *ssa.FreeVar or pointer *ssa.Parameter
	Ref    string    // LField: object reference term
	Owner  types.Type
	OwnerS *types.Struct
	Field  int
	Arr    string // LElem: backing array id term
	Idx    string // LElem: absolute index into backing array
	Parent *Loc   // LSub: field `Field` of struct value stored at Parent
	Global *ssa.Global
	T      types.Type // pointee type
	PT     types.Type // LPtr: the pointer type
	GKey   string     // LGhost: heap key
	GSort  string     // LGhost: element sort text
}

// ---------------------------------------------------------------------------------------------

type Emitter struct {
	quant int // >0 while the body of a quantifier is being evaluated
	lines    []string // definitions and assumptions, in order
	lits     []string // string literal declarations (persistent, not rolled back)
	litNames map[string]string
	dts      []string // datatype declarations (persistent)
	dtDone   map[string]Sort
	decl0    []string // base heap / uninterpreted function declarations (persistent)
	declared map[string]bool
	n        int
	tags     map[string]int // type string -> interface tag
	tagList  []string
	boxes    map[Sort]bool
	ufuns    map[string]string // name -> signature
	defs     map[string]string // defined name -> body
	born     map[string]int    // declared/defined name -> counter value at creation
}

func NewEmitter() *Emitter {
	return &Emitter{litNames: map[string]string{}, dtDone: map[string]Sort{}, declared: map[string]bool{},
		tags: map[string]int{}, boxes: map[Sort]bool{}, ufuns: map[string]string{}, defs: map[string]string{}, born: map[string]int{}}
}

func q(name string) string {
	name = strings.NewReplacer("|", "!", "\\", "!").Replace(name)
	return "|" + name + "|"
}

func (e *Emitter) freshName(prefix string) string {
	e.n++
	return q(fmt.Sprintf("%s@%d", prefix, e.n))
}

func (e *Emitter) Fresh(prefix string, s Sort) string {
	n := e.freshName(prefix)
	e.born[n] = e.n
	e.lines = append(e.lines, fmt.Sprintf("(declare-const %s %s)", n, s))
	return n
}

func (e *Emitter) Define(prefix string, s Sort, term string) string {
	if isAtom(term) {
		return term
	}
	if e.quant > 0 {
		return term // inside a quantifier body: the term may mention the bound variable
	}
	n := e.freshName(prefix)
	e.born[n] = e.n
	e.defs[n] = term
	e.lines = append(e.lines, fmt.Sprintf("(define-fun %s () %s %s)", n, s, term))
	return n
}

func (e *Emitter) DefineRaw(prefix string, sortText string, term string) string {
	n := e.freshName(prefix)
	e.born[n] = e.n
	e.defs[n] = term
	e.lines = append(e.lines, fmt.Sprintf("(define-fun %s () %s %s)", n, sortText, term))
	return n
}

func (e *Emitter) FreshRaw(prefix string, sortText string) string {
	n := e.freshName(prefix)
	e.born[n] = e.n
	e.lines = append(e.lines, fmt.Sprintf("(declare-const %s %s)", n, sortText))
	return n
}

func (e *Emitter) Assert(term string) {
	if term == "true" {
		return
	}
	if e.quant > 0 {
		return // a type fact about a term under a binder cannot be stated at top level
	}
	e.lines = append(e.lines, "(assert "+term+")")
}

func (e *Emitter) Comment(c string) {
	e.lines = append(e.lines, "; "+strings.ReplaceAll(c, "\n", " "))
}

// DeclareBase declares a persistent constant/function once (entry heaps, uninterpreted functions).
func (e *Emitter) DeclareBase(name, decl string) {
	if e.declared[name] {
		return
	}
	e.declared[name] = true
	e.decl0 = append(e.decl0, decl)
}

func isAtom(t string) bool {
	if t == "" {
		return true
	}
	if t[0] == '|' {
		return strings.Count(t, "|") == 2 && t[len(t)-1] == '|'
	}
	return !strings.ContainsAny(t, " (")
}

// ---- literals ---------------------------------------------------------------------------------

func intLit(n int64) string {
	if n < 0 {
		return fmt.Sprintf("(- %d)", -n)
	}
	return fmt.Sprintf("%d", n)
}

func bigLit(b *big.Int) string {
	if b.Sign() < 0 {
		return "(- " + new(big.Int).Neg(b).String() + ")"
	}
	return b.String()
}

func (e *Emitter) StrLit(s string) string {
	if n, ok := e.litNames[s]; ok {
		return n
	}
	if s == "" {
		e.litNames[s] = "gs.empty"
		return "gs.empty"
	}
	show := s
	if len(show) > 24 {
		show = show[:24] + "~"
	}
	show = strings.Map(func(r rune) rune {
		if r < 32 || r > 126 || r == '|' || r == '\\' {
			return '?'
		}
		return r
	}, show)
	n := q(fmt.Sprintf("lit%d:%s", len(e.litNames), show))
	e.litNames[s] = n
	e.lits = append(e.lits, fmt.Sprintf("(declare-const %s Str)", n))
	e.lits = append(e.lits, fmt.Sprintf("(assert (= (gs.len %s) %d))", n, len(s)))
	if len(s) <= 64 {
		var b strings.Builder
		b.WriteString("(assert (and true")
		for i := 0; i < len(s); i++ {
			fmt.Fprintf(&b, " (= (gs.at %s %d) %d)", n, i, s[i])
		}
		b.WriteString("))")
		e.lits = append(e.lits, b.String())
	}
	return n
}

func f64Lit(f float64) string {
	bits := math.Float64bits(f)
	sign := bits >> 63
	exp := (bits >> 52) & 0x7ff
	man := bits & ((1 << 52) - 1)
	return fmt.Sprintf("(fp #b%b #b%011b #b%052b)", sign, exp, man)
}

func (e *Emitter) ConstVal(c constant.Value, t types.Type) (Val, error) {
	s := e.SortOf(t)
	if c == nil { // nil / zero
		return Val{T: t, S: e.Zero(t), Sort: s}, nil
	}
	switch s {
	case SInt:
		if c.Kind() == constant.Int {
			if i, ok := constant.Int64Val(c); ok {
				return Val{T: t, S: intLit(i), Sort: SInt}, nil
			}
			if b, ok := constant.Val(c).(*big.Int); ok {
				return Val{T: t, S: bigLit(b), Sort: SInt}, nil
			}
		}
		if c.Kind() == constant.Float {
			if i, ok := constant.Int64Val(constant.ToInt(c)); ok {
				return Val{T: t, S: intLit(i), Sort: SInt}, nil
			}
		}
	case SBV:
		if i, ok := constant.Uint64Val(c); ok {
			return Val{T: t, S: fmt.Sprintf("(_ bv%d 64)", i), Sort: SBV}, nil
		}
	case SBool:
		if constant.BoolVal(c) {
			return Val{T: t, S: "true", Sort: SBool}, nil
		}
		return Val{T: t, S: "false", Sort: SBool}, nil
	case SStr:
		return Val{T: t, S: e.StrLit(constant.StringVal(c)), Sort: SStr}, nil
	case SF64:
		f, _ := constant.Float64Val(c)
		return Val{T: t, S: f64Lit(f), Sort: SF64}, nil
	}
	return Val{}, fmt.Errorf("unsupported constant %v of type %v", c, t)
}

// ---- sorts --------------------------------------------------------------------------------------

var bitvectorTypes = map[string]bool{} // named types encoded as 64-bit vectors (set from contracts)

func typeKey(t types.Type) string {
	return types.TypeString(t, func(p *types.Package) string {
		pp := p.Path()
		pp = strings.TrimPrefix(pp, "github.com/lmorg/murex/")
		return pp
	})
}

func (e *Emitter) SortOf(t types.Type) Sort {
	if n, ok := t.(*types.Named); ok {
		if bitvectorTypes[typeKey(n)] {
			return SBV
		}
	}
	if a, ok := t.(*types.Alias); ok {
		return e.SortOf(types.Unalias(a))
	}
	switch u := t.Underlying().(type) {
	case *types.Basic:
		switch {
		case u.Info()&types.IsBoolean != 0:
			return SBool
		case u.Info()&types.IsInteger != 0:
			return SInt
		case u.Info()&types.IsString != 0:
			return SStr
		case u.Info()&types.IsFloat != 0:
			return SF64
		case u.Kind() == types.UnsafePointer, u.Kind() == types.UntypedNil:
			return SInt
		}
		return SInt
	case *types.Pointer, *types.Map, *types.Chan, *types.Signature:
		return SInt
	case *types.Slice:
		return SSlice
	case *types.Array:
		return SSlice // fixed arrays are handled as backing arrays with a slice view
	case *types.Interface:
		return SIface
	case *types.Struct:
		return e.structSort(t, u)
	case *types.Tuple:
		return "Tuple"
	case *types.TypeParam:
		return SIface
	}
	return SInt
}

func mangle(s string) string {
	var b strings.Builder
	for _, r := range s {
		if (r >= 'a' && r <= 'z') || (r >= 'A' && r <= 'Z') || (r >= '0' && r <= '9') {
			b.WriteRune(r)
		} else {
			b.WriteRune('_')
		}
	}
	return b.String()
}

func (e *Emitter) structSort(t types.Type, st *types.Struct) Sort {
	key := typeKey(t)
	if s, ok := e.dtDone[key]; ok {
		return s
	}
	name := Sort("S_" + mangle(key))
	if len(name) > 60 {
		name = Sort(fmt.Sprintf("%s_%d", name[:60], len(e.dtDone)))
	}
	e.dtDone[key] = name
	var fields []string
	for i := 0; i < st.NumFields(); i++ {
		fs := e.SortOf(st.Field(i).Type())
		fields = append(fields, fmt.Sprintf("(%s %s)", e.fieldSel(name, st, i), fs))
	}
	if len(fields) == 0 {
		fields = append(fields, fmt.Sprintf("(%s_unit Int)", name))
	}
	e.dts = append(e.dts, fmt.Sprintf("(declare-datatypes ((%s 0)) (((mk_%s %s))))", name, name, strings.Join(fields, " ")))
	return name
}

func (e *Emitter) fieldSel(s Sort, st *types.Struct, i int) string {
	return fmt.Sprintf("%s_%d_%s", s, i, mangle(st.Field(i).Name()))
}

func (e *Emitter) Zero(t types.Type) string {
	s := e.SortOf(t)
	switch s {
	case SInt:
		return "0"
	case SBool:
		return "false"
	case SStr:
		return e.StrLit("")
	case SSlice:
		return "(mkSlice 0 0 0 0)"
	case SIface:
		return "(mkIface 0 0)"
	case SF64:
		return f64Lit(0)
	case SBV:
		return "(_ bv0 64)"
	}
	if st, ok := t.Underlying().(*types.Struct); ok {
		var parts []string
		for i := 0; i < st.NumFields(); i++ {
			parts = append(parts, e.Zero(st.Field(i).Type()))
		}
		if len(parts) == 0 {
			parts = []string{"0"}
		}
		return fmt.Sprintf("(mk_%s %s)", s, strings.Join(parts, " "))
	}
	return "0"
}

// ---- interfaces ---------------------------------------------------------------------------------

func (e *Emitter) Tag(t types.Type) int {
	k := typeKey(t)
	if n, ok := e.tags[k]; ok {
		return n
	}
	n := len(e.tags) + 1
	e.tags[k] = n
	e.tagList = append(e.tagList, k)
	return n
}

func (e *Emitter) Box(v Val) string {
	switch v.Sort {
	case SInt:
		return v.S
	case SBool:
		return fmt.Sprintf("(ite %s 1 0)", v.S)
	}
	e.needBox(v.Sort)
	return fmt.Sprintf("(box_%s %s)", v.Sort, v.S)
}

func (e *Emitter) Unbox(payload string, s Sort) string {
	switch s {
	case SInt:
		return payload
	case SBool:
		return fmt.Sprintf("(= %s 1)", payload)
	}
	e.needBox(s)
	return fmt.Sprintf("(unbox_%s %s)", s, payload)
}

func (e *Emitter) needBox(s Sort) {
	if e.boxes[s] {
		return
	}
	e.boxes[s] = true
	e.decl0 = append(e.decl0,
		fmt.Sprintf("(declare-fun box_%s (%s) Int)", s, s),
		fmt.Sprintf("(declare-fun unbox_%s (Int) %s)", s, s),
		fmt.Sprintf("(assert (forall ((x %s)) (! (= (unbox_%s (box_%s x)) x) :pattern ((box_%s x)))))", s, s, s, s))
}

// UFun declares an uninterpreted function once.
func (e *Emitter) UFun(name string, args []Sort, res Sort) string {
	qn := q(name)
	var as []string
	for _, a := range args {
		as = append(as, string(a))
	}
	sig := fmt.Sprintf("(%s) %s", strings.Join(as, " "), res)
	if old, ok := e.ufuns[qn]; ok {
		if old != sig {
			panic(toolLimit("uninterpreted function %s used with two signatures: %s vs %s", name, old, sig))
		}
		return qn
	}
	e.ufuns[qn] = sig
	e.decl0 = append(e.decl0, fmt.Sprintf("(declare-fun %s %s)", qn, sig))
	return qn
}

// ---- prelude ------------------------------------------------------------------------------------

const preludeText = `(set-option :produce-models true)
(set-logic ALL)
(define-sort F64 () (_ FloatingPoint 11 53))
(define-sort BV64 () (_ BitVec 64))
(declare-sort Str 0)
(declare-datatypes ((Slice 0)) (((mkSlice (s.arr Int) (s.off Int) (s.len Int) (s.cap Int)))))
(declare-datatypes ((Iface 0)) (((mkIface (i.tag Int) (i.val Int)))))
(declare-fun gs.len (Str) Int)
(declare-fun gs.at (Str Int) Int)
(declare-const gs.empty Str)
(assert (= (gs.len gs.empty) 0))
(assert (forall ((s Str)) (! (>= (gs.len s) 0) :pattern ((gs.len s)))))
(assert (forall ((s Str) (i Int)) (! (and (<= 0 (gs.at s i)) (<= (gs.at s i) 255)) :pattern ((gs.at s i)))))
(assert (forall ((s Str)) (! (=> (= (gs.len s) 0) (= s gs.empty)) :pattern ((gs.len s)))))
(declare-fun gs.cat (Str Str) Str)
(assert (forall ((a Str) (b Str)) (! (= (gs.len (gs.cat a b)) (+ (gs.len a) (gs.len b))) :pattern ((gs.cat a b)))))
(assert (forall ((a Str) (b Str) (i Int)) (! (= (gs.at (gs.cat a b) i) (ite (< i (gs.len a)) (gs.at a i) (gs.at b (- i (gs.len a))))) :pattern ((gs.at (gs.cat a b) i)))))
(declare-fun gs.sub (Str Int Int) Str)
(assert (forall ((a Str) (l Int) (h Int)) (! (=> (and (<= 0 l) (<= l h) (<= h (gs.len a))) (= (gs.len (gs.sub a l h)) (- h l))) :pattern ((gs.sub a l h)))))
(assert (forall ((a Str) (l Int) (h Int) (i Int)) (! (=> (and (<= 0 l) (<= l h) (<= h (gs.len a)) (<= 0 i) (< i (- h l))) (= (gs.at (gs.sub a l h) i) (gs.at a (+ l i)))) :pattern ((gs.at (gs.sub a l h) i)))))
(declare-fun gs.lt (Str Str) Bool)
(declare-fun map.len (Int) Int)
(define-fun go.div ((a Int) (b Int)) Int (ite (>= a 0) (ite (> b 0) (div a b) (- (div a (- b)))) (ite (> b 0) (- (div (- a) b)) (div (- a) (- b)))))
(define-fun go.mod ((a Int) (b Int)) Int (- a (* b (go.div a b))))
(declare-fun implements (Int Int) Bool)
(define-fun slice.wf ((s Slice)) Bool (and (<= 0 (s.off s)) (<= 0 (s.len s)) (<= (s.len s) (s.cap s)) (<= 0 (s.arr s)) (=> (= (s.arr s) 0) (= (s.cap s) 0))))
`

// strEqExt states extensional equality for two string terms (used when a goal needs s == t proved).
func strEqAxiom() string {
	return `(assert (forall ((a Str) (b Str)) (! (=> (and (= (gs.len a) (gs.len b)) (forall ((i Int)) (=> (and (<= 0 i) (< i (gs.len a))) (= (gs.at a i) (gs.at b i))))) (= a b)) :pattern ((gs.ext a b)))))`
}

func (e *Emitter) Prelude() string {
	var b strings.Builder
	b.WriteString(preludeText)
	b.WriteString("(declare-fun gs.ext (Str Str) Bool)\n")
	b.WriteString(strEqAxiom() + "\n")
	for _, d := range e.dts {
		b.WriteString(d + "\n")
	}
	for _, d := range e.decl0 {
		b.WriteString(d + "\n")
	}
	for _, d := range e.lits {
		b.WriteString(d + "\n")
	}
	// distinctness of long literals that share length is not derivable from chars (len>64): rare, ignored
	if len(e.tagList) > 0 {
		ks := make([]string, 0, len(e.tagList))
		for i, k := range e.tagList {
			ks = append(ks, fmt.Sprintf("%d=%s", i+1, k))
		}
		sort.Strings(ks)
		b.WriteString("; interface tags: " + strings.Join(ks, " ; ") + "\n")
	}
	return b.String()
}

// ---- small term helpers -------------------------------------------------------------------------

func and(xs ...string) string {
	var ys []string
	for _, x := range xs {
		if x == "true" || x == "" {
			continue
		}
		if x == "false" {
			return "false"
		}
		ys = append(ys, x)
	}
	switch len(ys) {
	case 0:
		return "true"
	case 1:
		return ys[0]
	}
	return "(and " + strings.Join(ys, " ") + ")"
}

func or(xs ...string) string {
	var ys []string
	for _, x := range xs {
		if x == "false" || x == "" {
			continue
		}
		if x == "true" {
			return "true"
		}
		ys = append(ys, x)
	}
	switch len(ys) {
	case 0:
		return "false"
	case 1:
		return ys[0]
	}
	return "(or " + strings.Join(ys, " ") + ")"
}

func not(x string) string {
	switch x {
	case "true":
		return "false"
	case "false":
		return "true"
	}
	if strings.HasPrefix(x, "(not ") && balanced(x[5:len(x)-1]) {
		return x[5 : len(x)-1]
	}
	return "(not " + x + ")"
}

func balanced(s string) bool {
	d := 0
	inq := false
	for _, r := range s {
		switch {
		case r == '|':
			inq = !inq
		case inq:
		case r == '(':
			d++
		case r == ')':
			d--
			if d < 0 {
				return false
			}
		case r == ' ' && d == 0:
			return false
		}
	}
	return d == 0
}

func imp(a, b string) string {
	if a == "true" {
		return b
	}
	if b == "true" || a == "false" {
		return "true"
	}
	return "(=> " + a + " " + b + ")"
}

func ite(c, a, b string) string {
	if c == "true" {
		return a
	}
	if c == "false" {
		return b
	}
	if a == b {
		return a
	}
	return "(ite " + c + " " + a + " " + b + ")"
}

func sel(arr, idx string) string { return "(select " + arr + " " + idx + ")" }
func sto(arr, idx, v string) string {
	return "(store " + arr + " " + idx + " " + v + ")"
}
func eq(a, b string) string {
	if a == b {
		return "true"
	}
	return "(= " + a + " " + b + ")"
}
func add(a, b string) string {
	if b == "0" {
		return a
	}
	if a == "0" {
		return b
	}
	return "(+ " + a + " " + b + ")"
}
func sub(a, b string) string {
	if b == "0" {
		return a
	}
	return "(- " + a + " " + b + ")"
}

type toolLimitErr struct{ msg string }

func (t toolLimitErr) Error() string { return t.msg }
func toolLimit(f string, a ...any) toolLimitErr {
	return toolLimitErr{fmt.Sprintf(f, a...)}
}

// expandStable rewrites term over symbols that existed when the counter was n1 (definitions made
// later are unfolded). ok is false if the term depends on a constant declared after n1.
func (e *Emitter) expandStable(term string, n1 int) (string, bool) {
	var b strings.Builder
	i := 0
	for i < len(term) {
		if term[i] != '|' {
			b.WriteByte(term[i])
			i++
			continue
		}
		j := strings.IndexByte(term[i+1:], '|')
		if j < 0 {
			return "", false
		}
		name := term[i : i+j+2]
		i += j + 2
		born, isNew := e.born[name]
		if !isNew || born <= n1 {
			b.WriteString(name)
			continue
		}
		body, isDef := e.defs[name]
		if !isDef {
			return "", false
		}
		x, ok := e.expandStable(body, n1)
		if !ok || b.Len()+len(x) > 4000 {
			return "", false
		}
		b.WriteString(x)
	}
	return b.String(), true
}
