#!/usr/bin/env python3
"""Confirms a seeded change in a scratch worktree of /repo (outside /repo and /verif) and, if it
holds up, stores it as /verif/seeded/<ID>/<k>/ {patch.diff, demo, notes.md, meta.json}.

  tools_confirm.py <ID> <k> <demo package dir> [<src dir, default /tmp/mut/ID/out/k>]

Confirmed = (1) demo passes on the unchanged tree, (2) patch applies and the tree still builds,
(3) demo fails with the patch, (4) the existing test suite still passes with the patch (the two
tests that always fail offline excepted).
"""
import json
import os
import re
import shutil
import subprocess
import sys
import time

ENV = dict(os.environ, GOFLAGS="-mod=mod", GOPROXY="off", GOTOOLCHAIN="local",
           PATH="/opt/veriftools/go1.26.8/bin:" + os.environ.get("PATH", ""))
KNOWN_FAIL = {"TestHttp", "TestAspellInstalled"}


def sh(cmd, cwd, timeout=1800):
    p = subprocess.run(cmd, shell=True, cwd=cwd, env=ENV, capture_output=True, text=True, timeout=timeout)
    return p.returncode, p.stdout + p.stderr


def main():
    pid, k, demodir = sys.argv[1], sys.argv[2], sys.argv[3]
    src = sys.argv[4] if len(sys.argv) > 4 else "/tmp/mut/%s/out/%s" % (pid, k)
    wt = "/var/tmp/verif-scratch/confirm-%s-%s" % (pid, k)
    os.makedirs("/var/tmp/verif-scratch", exist_ok=True)
    sh("git -C /repo worktree remove --force %s" % wt, "/")
    rc, out = sh("git -C /repo worktree add --detach %s HEAD" % wt, "/")
    log = []
    meta = dict(property=pid, variant=k, confirmed=False, repo_head=sh("git -C /repo rev-parse HEAD", "/")[1].strip(), ran=[])
    try:
        demos = [f for f in os.listdir(src) if f.endswith("_test.go")]
        # only the main demo (demo_test.go) is required
        demo = "demo_test.go"
        shutil.copy(os.path.join(src, demo), os.path.join(wt, demodir, "zz_seeded_demo_test.go"))
        m = re.search(r"func (Test\w+)\(", open(os.path.join(src, demo)).read())
        names = re.findall(r"func (Test\w+)\(", open(os.path.join(src, demo)).read())
        run = "^(" + "|".join(names) + ")$"
        cmd = "go test %s -vet=off -count=1 -timeout 300s -run '%s' ./%s/" % (os.environ.get("CONFIRM_FLAGS", ""), run, demodir)
        rc, out = sh(cmd, wt)
        meta["ran"].append(dict(cmd=cmd, when="without change", rc=rc, tail=out[-600:]))
        if rc != 0:
            meta["reason"] = "demo does not pass on the unchanged tree"
            return meta
        rc, out = sh("git apply %s" % os.path.join(src, "patch.diff"), wt)
        if rc != 0:
            meta["reason"] = "patch does not apply to the current tree: " + out[-300:]
            return meta
        rc, out = sh("go build ./... ", wt)
        if rc != 0:
            meta["reason"] = "does not build: " + out[-300:]
            return meta
        rc, out = sh(cmd, wt)
        meta["ran"].append(dict(cmd=cmd, when="with change", rc=rc, tail=out[-1200:]))
        if rc == 0:
            meta["reason"] = "demo still passes with the change"
            return meta
        os.remove(os.path.join(wt, demodir, "zz_seeded_demo_test.go"))
        suite = "go test -vet=off -count=1 -timeout 600s ./lang/... ./builtins/... ./utils/... ./config/... ./shell/... ./app/... ./integrations/... . 2>&1"
        rc, out = sh(suite, wt, timeout=3000)
        fails = set(re.findall(r"^--- FAIL: (\w+)", out, re.M))
        badpkgs = sorted(set(re.findall(r"^FAIL\s+(github.com/lmorg/murex\S*)", out, re.M)))
        meta["ran"].append(dict(cmd=suite, when="existing tests with change", rc=rc, failing=sorted(fails), failing_packages=badpkgs, tail=out[-400:]))
        # timing-sensitive tests fail under machine load: a failing package is re-run on its own
        still = []
        for bp in badpkgs:
            rel = "./" + bp.replace("github.com/lmorg/murex", "").lstrip("/")
            okp = False
            for attempt in range(3):
                c2 = "go test -vet=off -count=1 -timeout 600s %s 2>&1" % rel
                rc2, out2 = sh(c2, wt, timeout=1500)
                f2 = set(re.findall(r"^--- FAIL: (\w+)", out2, re.M)) - KNOWN_FAIL
                meta["ran"].append(dict(cmd=c2, when="re-run alone (attempt %d)" % (attempt + 1), rc=rc2, failing=sorted(f2), tail=out2[-300:]))
                if not f2 and "panic:" not in out2:
                    okp = True
                    break
            if not okp:
                still.append(bp)
        if still:
            meta["reason"] = "existing tests notice the change in: %s" % still
            return meta
        meta["confirmed"] = True
        return meta
    finally:
        sh("git -C /repo worktree remove --force %s" % wt, "/")
        dst = "/verif/seeded/%s/%s" % (pid, k)
        if meta.get("confirmed"):
            os.makedirs(dst, exist_ok=True)
            for f in os.listdir(src):
                shutil.copy(os.path.join(src, f), os.path.join(dst, f))
            meta["demo_package_dir"] = demodir
            json.dump(meta, open(os.path.join(dst, "meta.json"), "w"), indent=1)
        print(pid, k, "CONFIRMED" if meta.get("confirmed") else "REJECTED: " + meta.get("reason", "?"))
        os.makedirs("/verif/work", exist_ok=True)
        json.dump(meta, open("/verif/work/confirm-%s-%s.json" % (pid, k), "w"), indent=1)


if __name__ == "__main__":
    main()
