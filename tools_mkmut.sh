#!/bin/sh
# usage: tools_mkmut.sh C16  -> creates scratch worktree /tmp/mut/C16/wt (contract files removed, so the
# sub-agent sees only murex) and /tmp/mut/C16/PROPERTY.json; the prompt is tools_mut_prompt.txt
set -e
id=$1
mkdir -p /tmp/mut/$id/out
cp /verif/tools_mut_prompt.txt /tmp/mut/PROMPT.txt
git -C /repo worktree add --detach /tmp/mut/$id/wt HEAD >/dev/null 2>&1
( cd /tmp/mut/$id/wt && find . -name 'zz_verif_*' -delete && git -c user.name=x -c user.email=x@x commit -qam "scratch: no contract files" )
python3 - "$id" <<'P'
import json,sys
for l in open('/verif/properties.jsonl'):
    p=json.loads(l)
    if p['id']==sys.argv[1]:
        json.dump(p,open(f'/tmp/mut/{p["id"]}/PROPERTY.json','w'),indent=1)
P
echo /tmp/mut/$id
