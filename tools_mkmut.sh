#!/bin/sh
# usage: tools_mkmut.sh C16  -> creates scratch worktree /tmp/mut/C16/wt and /tmp/mut/C16/PROPERTY.json
set -e
id=$1
mkdir -p /tmp/mut/$id/out
git -C /repo worktree add --detach /tmp/mut/$id/wt HEAD >/dev/null 2>&1
python3 - "$id" <<'P'
import json,sys
for l in open('/verif/properties.jsonl'):
    p=json.loads(l)
    if p['id']==sys.argv[1]:
        json.dump(p,open(f'/tmp/mut/{p["id"]}/PROPERTY.json','w'),indent=1)
P
echo /tmp/mut/$id
