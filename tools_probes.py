#!/usr/bin/env python3
"""Runs the property-level replay probes of <ID>... against /repo: on the unchanged tree none may reproduce."""
import json, os, sys
sys.path.insert(0, os.path.dirname(os.path.abspath(__file__)))
import replay, replay_templates
env = dict(os.environ, GOFLAGS="-mod=mod", GOPROXY="off", GOTOOLCHAIN="local", PATH="/opt/veriftools/go1.26.8/bin:" + os.environ.get("PATH", ""))
bad = 0
for pid in sys.argv[1:] or sorted(replay_templates.PROBES):
    rep = dict(property=pid, func="(probe)", model={})
    path = "/var/tmp/verif-scratch/probe-%s.json" % pid
    os.makedirs("/var/tmp/verif-scratch", exist_ok=True)
    r = replay.replay(rep, path, env, os.environ.get("VERIF_REPO", "/repo"))
    d = json.load(open(path))
    print(pid, "REPRODUCED" if r else "clean", (d.get("replay") or {}).get("hits") if isinstance(d.get("replay"), dict) else d.get("replay"))
    if isinstance(d.get("replay"), dict) and "FAIL" in d["replay"].get("output_tail", "") and not r:
        print(d["replay"]["output_tail"][-600:])
    bad += bool(r)
sys.exit(1 if bad else 0)
