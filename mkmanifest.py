#!/usr/bin/env python3
"""Regenerates MANIFEST.json from props.json (claimed checks) and na.json (not applicable)."""
import json
import os
import subprocess

V = os.path.dirname(os.path.abspath(__file__))
props = json.load(open(os.path.join(V, "props.json")))
na = json.load(open(os.path.join(V, "na.json")))
ids = ["C%02d" % i for i in range(1, 40)]
try:
    hooks = subprocess.run(["git", "-C", "/repo", "log", "--format=%H %s"], capture_output=True, text=True).stdout.strip().split("\n")
    hook_commits = [l.split()[0] for l in hooks if " verif hook" in l]
except Exception:
    hook_commits = []
checks = []
for pid in ids:
    if pid not in props:
        continue
    c = props[pid]
    checks.append(dict(
        property_id=pid,
        quick_cmd="./check %s --tier quick" % pid,
        thorough_cmd="./check %s --tier thorough" % pid,
        evidence_file="/verif/evidence/%s.json" % pid,
        replay_cmd_template="./check %s --replay {path}" % pid,
        engine="goverif",
        level_claimed=dict(category=c.get("level", "proof"), text=c["level_text"], design_ref=c.get("design_ref", "DESIGN.md section 5 " + pid)),
        level_note=c["level_note"],
        technique=c.get("technique", "contract-based deductive verification: weakest-precondition style VCs generated from go/ssa of the real code, contracts as //@ comments, discharged by z3/cvc5"),
    ))
not_app = []
for pid in ids:
    if pid in props:
        continue
    not_app.append(dict(property_id=pid, reason=na.get(pid, "not reached: the contracts for this property were not brought to a state where every obligation discharges on the unchanged tree (see DESIGN.md)")))
m = dict(
    version=1,
    setup_cmd="./setup.sh",
    hooks=dict(guard="verif", enable="-tags verif (comment-only contract files <pkg>/zz_verif_contracts.go and lemma harnesses zz_verif_lemmas.go)",
               baseline_off_cmd="cd /repo && GOFLAGS=-mod=mod go test -vet=off -count=1 -timeout 25m ./...",
               source_commits=hook_commits, add_only=True),
    engines=[dict(name="goverif", path="engine/", serves_properties=[c["property_id"] for c in checks],
                  kind_free_text="own verification-condition generator over go/ssa (NaiveForm) of /repo's working tree; contracts in //@ comment files under build tag verif; one SMT-LIB query per named obligation; z3 4.8 / z3 5.1 / cvc5 raced; python driver ./check")],
    checks=checks,
    not_applicable=not_app,
    notes="Exit 2 + `UNDECIDED` = tool fault (never a violation). Known findings: known_findings.json. See DESIGN.md.",
)
json.dump(m, open(os.path.join(V, "MANIFEST.json"), "w"), indent=1)
print("checks:", len(checks), "not_applicable:", len(not_app))
